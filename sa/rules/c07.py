"""C07 -- backward() releases the graph; gradients never go stale (structure of back-edges, clear_graph, nulling)."""
from __future__ import annotations

import ast
from typing import List, Set

from ..cfg import ENTRY, EXIT, RAISE, reaching_defs
from ..common import calls_named, dotted, kw, loc, norm, stmt_of
from ..model import AnalysisError, ClassInfo, own_nodes
from .util import anchor_func, assigned_name, build_cfg, facts, switch_assumptions

TENSOR = "mygrad.tensor_base.Tensor"
OP = f"{TENSOR}._op"
CLEAR = f"{TENSOR}.clear_graph"
BACKWARD = f"{TENSOR}.backward"
INPLACE = f"{TENSOR}._in_place_op"
COLLECT = "mygrad._utils.collect_all_tensors_and_clear_grads"
WEAK_CTORS = ("ReferenceType", "ref", "WeakRef", "weakref.ref", "weakref.ReferenceType")


def _is_weakref_call(e: ast.AST) -> bool:
    return isinstance(e, ast.Call) and (dotted(e.func) or "") in WEAK_CTORS


def r07_1(run):
    fx = facts(run)
    n_add = 0
    for fi in run.project.all_functions():
        for c in own_nodes(fi.node):
            if isinstance(c, ast.Call) and isinstance(c.func, ast.Attribute) and c.func.attr in ("add", "update") \
                    and isinstance(c.func.value, ast.Attribute) and c.func.value.attr == "_ops":
                n_add += 1
                arg = c.args[0] if c.args else None
                ok = False
                why = "a strong reference to the consuming op is stored in Tensor._ops: input tensors keep every consumer alive"
                if arg is not None and _is_weakref_call(arg):
                    ok, why = True, "argument is a weak reference constructor call"
                elif isinstance(arg, ast.Name):
                    cfg = build_cfg(run, fi)
                    n = cfg.stmt_node_containing(c)
                    defs = reaching_defs(cfg, arg.id, n) if n is not None else []
                    if defs and all(d != ENTRY and _is_weakref_call(getattr(cfg.stmt[d], "value", None)) for d in defs):
                        ok, why = True, f"every reaching definition of {arg.id} is ReferenceType(...)/weakref.ref(...)"
                run.ob("R07.1", loc(fi, c), fi.short, f"{norm(c.func)}({norm(arg) if arg is not None else ''})", ok, why)
    for (fi, mod, st, t, val, kind) in fx.attribute_stores():
        if t.attr == "_ops" and kind == "assign":
            ok = isinstance(val, ast.Call) and dotted(val.func) == "set" and not val.args
            run.ob("R07.1", loc(mod, st), fi.short if fi else mod.name, f"store {norm(t)} = {norm(val)[:40]}", ok,
                   "initialised to an empty set" if ok else "Tensor._ops replaced by a non-empty / foreign container")
        if t.attr == "_view_children" and kind == "assign":
            ok = isinstance(val, ast.Call) and (dotted(val.func) or "").endswith("WeakRefIterable")
            run.ob("R07.1", loc(mod, st), fi.short if fi else mod.name, f"store {norm(t)} = {norm(val)[:40]}", ok,
                   "a WeakRefIterable (holds weak references only)" if ok else
                   "view children held by a container of strong references: views are kept alive by their parent")
    # WeakRefIterable itself wraps every item weakly
    wri = run.project.cls("mygrad._utils.WeakRefIterable")
    for mname in ("__init__", "append"):
        m = wri.methods.get(mname)
        if m is None:
            raise AnalysisError(f"WeakRefIterable.{mname} not found")
        # every element that enters self.data: elements of a list built here (comprehension, list(<generator>), literal) and arguments of append
        elems, seen_store = [], False
        for n_ in own_nodes(m.node):
            if isinstance(n_, ast.Call) and isinstance(n_.func, ast.Attribute) and n_.func.attr in ("append", "insert") and norm(n_.func.value) == "self.data":
                seen_store = True
                elems.append(n_.args[-1] if n_.args else None)
            elif isinstance(n_, ast.Call) and isinstance(n_.func, ast.Attribute) and n_.func.attr == "extend" and norm(n_.func.value) == "self.data":
                seen_store = True
                a_ = n_.args[0] if n_.args else None
                elems.append(a_.elt if isinstance(a_, (ast.GeneratorExp, ast.ListComp)) else None)
            elif isinstance(n_, ast.Assign) and any(norm(t_) == "self.data" for t_ in n_.targets):
                seen_store = True
                v_ = n_.value
                if isinstance(v_, ast.Call) and dotted(v_.func) in ("list", "tuple") and v_.args:
                    v_ = v_.args[0]
                if isinstance(v_, (ast.GeneratorExp, ast.ListComp)):
                    elems.append(v_.elt)
                elif isinstance(v_, (ast.List, ast.Tuple)):
                    elems.extend(v_.elts)
                elif isinstance(v_, ast.Call) and dotted(v_.func) in ("list", "tuple") and not v_.args:
                    pass  # empty container
                else:
                    elems.append(None)
        ok = seen_store and all(e_ is not None and _is_weakref_call(e_) for e_ in elems)
        run.ob("R07.1", loc(m, m.node), m.short, "items are wrapped in ReferenceType before being stored", ok,
               "every stored element is a weakref constructor call" if ok else "WeakRefIterable stores a strong reference")
    run.count("_ops.add sites", n_add)
    if n_add < 1:
        raise AnalysisError("no `<tensor>._ops.add(...)` site found")


def r07_2(run):
    """stores onto an Operation instance made outside the op's own methods must not hold the produced tensor strongly"""
    fx = facts(run)
    opbase = run.project.cls("mygrad.operation_base.Operation")
    n = 0
    for (fi, mod, st, t, val, kind) in fx.attribute_stores():
        if kind != "assign" or fi is None:
            continue
        recv = t.value
        via_creator = isinstance(recv, ast.Attribute) and recv.attr in ("creator", "_creator")
        is_op_local = False
        if isinstance(recv, ast.Name) and not (fi.cls is not None and recv.id == fx.first_param(fi)):
            v = fx._single_local_value(fi, recv.id)
            if isinstance(v, ast.Call) and not v.args and isinstance(v.func, ast.Name):
                r = fx.resolve_in(fi, v.func)
                params = {a.arg for a in fi.node.args.args + fi.node.args.kwonlyargs}
                if (isinstance(r, ClassInfo) and r.is_subclass_of(opbase)) or v.func.id in params and v.func.id in ("Op", "op", "inplace_op"):
                    is_op_local = True
        if not (via_creator or is_op_local):
            continue
        n += 1
        # names bound to the tensor this op produced
        produced: Set[str] = set()
        if via_creator:
            root = recv.value
            if isinstance(root, ast.Name):
                produced.add(root.id)
        for s in own_nodes(fi.node):
            if isinstance(s, ast.Assign) and isinstance(s.value, ast.Call):
                k = kw(s.value, "_creator")
                if k is not None and isinstance(recv, ast.Name) and norm(k) == recv.id:
                    nm = assigned_name(s)
                    if nm:
                        produced.add(nm)
        strong = [x.id for x in ast.walk(val) if isinstance(x, ast.Name) and x.id in produced]
        weak_wrapped = _is_weakref_call(val)
        ok = (not strong) or weak_wrapped
        run.ob("R07.2", loc(mod, st), fi.short, f"store on op instance: {norm(t)} = {norm(val)[:50]}", ok,
               ("value is a weak reference" if weak_wrapped else "value does not reference the tensor the op produced") if ok else
               f"the op holds its own output ({strong[0]}) strongly: op <-> tensor reference cycle, not freed by refcounting")
    run.count("external stores on op instances", n)


def r07_3(run):
    fx = facts(run)
    sites = 0
    for fi in run.project.all_functions():
        for c in calls_named(fi.node, "finalize"):
            r = fx.resolve_call(fi, c)
            if not (hasattr(r, "name") and str(getattr(r, "name", "")).endswith("finalize")):
                continue
            sites += 1
            if len(c.args) < 2:
                continue
            obj = norm(c.args[0])
            cfg = build_cfg(run, fi, switch_assumptions(fi, track=True, memguard=True))
            n = cfg.stmt_node_containing(c)
            for a in c.args[2:]:
                ok, why = False, "finalizer argument is not a container of weak references: it pins arrays/tensors (or the op itself) for the op's lifetime"
                if isinstance(a, ast.Name):
                    defs = reaching_defs(cfg, a.id, n)
                    vals = []
                    for d in defs:
                        if d == ENTRY:
                            vals.append(None)
                            continue
                        v = getattr(cfg.stmt[d], "value", None)
                        # follow one alias hop  tensor_refs = _uniques
                        if isinstance(v, ast.Name):
                            d2 = reaching_defs(cfg, v.id, d)
                            vals += [getattr(cfg.stmt[x], "value", None) if x != ENTRY else None for x in d2]
                        else:
                            vals.append(v)
                    def weak_container(v, depth=0):
                        if isinstance(v, ast.Call) and (dotted(v.func) or "").endswith("WeakRefIterable"):
                            return True
                        if isinstance(v, ast.Call) and depth < 2:
                            r2 = fx.resolve_call(fi, v)
                            if hasattr(r2, "node") and hasattr(r2, "qualname"):
                                rets = [x for x in own_nodes(r2.node) if isinstance(x, ast.Return)]
                                return bool(rets) and all(weak_container(x.value, depth + 1) for x in rets)
                        return False
                    if vals and all(weak_container(v) for v in vals):
                        ok, why = True, f"every reaching definition of {a.id} is WeakRefIterable(...) (possibly through a helper that returns one)"
                if norm(a) == obj:
                    ok, why = False, "the finalizer's own referent is passed as an argument: it can never be collected"
                run.ob("R07.3", loc(fi, c), fi.short, f"finalize({obj}, ..., {norm(a)})", ok, why)
    if sites < 2:
        raise AnalysisError(f"expected >= 2 weakref.finalize registrations, found {sites}")


def r07_4(run):
    fi = anchor_func(run, CLEAR)
    cfg = build_cfg(run, fi)
    for attr in ("_ops", "_view_children"):
        cl = {cfg.stmt_node_containing(c) for c in calls_named(fi.node, "clear")
              if isinstance(c.func, ast.Attribute) and norm(c.func.value) == f"self.{attr}"}
        cl.discard(None)
        w = cfg.all_paths_hit(ENTRY, cl, exits=(EXIT,)) if cl else [ENTRY, EXIT]
        run.ob("R07.4", loc(fi, fi.node), fi.short, f"self.{attr}.clear() executed on every call", w is None,
               "graph-cut ENTRY->EXIT" if w is None else f"clear_graph can return leaving {attr} populated",
               path=cfg.path_text(w) if w else None)
    nulls = [n for n in own_nodes(fi.node) if isinstance(n, ast.Assign) and any(norm(t) == "self._creator" for t in n.targets)
             and isinstance(n.value, ast.Constant) and n.value.value is None]
    rec = [c for c in calls_named(fi.node, "clear_graph") if isinstance(c.func, ast.Attribute) and norm(c.func.value) != "self"]
    if not nulls or not rec:
        raise AnalysisError(f"{fi.short}: `self._creator = None` / recursive call not found")
    nn = cfg.node_for(nulls[0])
    for c in rec:
        nr = cfg.stmt_node_containing(c)
        ok = cfg.dominates(nn, nr)
        run.ob("R07.4", loc(fi, c), fi.short, "self._creator = None before recursing", ok,
               "the null store dominates the recursive call (marks the tensor visited; drops the strong edge)" if ok else
               "recursion before the creator is dropped: diamonds recurse exponentially / creator survives")
        loop = getattr(stmt_of(c), "_parent", None)
        while loop is not None and not isinstance(loop, ast.For):
            loop = getattr(loop, "_parent", None)
        ok = False
        if loop is not None and isinstance(loop.iter, ast.Attribute) and loop.iter.attr == "variables" \
                and isinstance(loop.iter.value, ast.Name) and isinstance(loop.target, ast.Name) \
                and norm(c.func.value) == loop.target.id:
            saved = loop.iter.value.id
            defs = reaching_defs(cfg, saved, cfg.node_for(loop))
            ok = bool(defs) and all(d != ENTRY and norm(getattr(cfg.stmt[d], "value", ast.Constant(0))) in ("self._creator", "self.creator")
                                    and cfg.dominates(d, nn) for d in defs)
        run.ob("R07.4", loc(fi, c), fi.short, "recursion covers every element of the saved creator's variables", ok,
               "for v in <creator saved before nulling>.variables: v.clear_graph()" if ok else
               "upstream tensors are not all released")
    # every normal exit either had no creator or passed the null store
    saved_names = {assigned_name(s) for s in own_nodes(fi.node) if isinstance(s, ast.Assign) and assigned_name(s)
                   and norm(s.value) in ("self._creator", "self.creator")}
    tests = [n for n, s in cfg.stmt.items() if cfg.label[n] == "If" and isinstance(s, ast.Compare) and len(s.ops) == 1
             and isinstance(s.ops[0], (ast.Is, ast.IsNot)) and isinstance(s.comparators[0], ast.Constant) and s.comparators[0].value is None
             and (norm(s.left) in ("self._creator", "self.creator") or (isinstance(s.left, ast.Name) and s.left.id in saved_names))]
    w = cfg.all_paths_hit(ENTRY, {nn} | set(tests), exits=(EXIT,))
    ok = w is None and all(cfg.edge_dominates(t, "false", nn) or True for t in tests)
    run.ob("R07.4", loc(fi, nulls[0]), fi.short, "creator dropped on every call that had one", ok,
           "every path to EXIT passes the `_creator is None` test or the null store" if ok else "creator can survive clear_graph")


def r07_5(run):
    fi = anchor_func(run, BACKWARD)
    for label, extra in (("non-constant", {"self.constant": False}), ("constant", {"self.constant": True})):
        cfg = build_cfg(run, fi, switch_assumptions(fi, track=True, extra=extra))
        cl = {cfg.stmt_node_containing(c) for c in calls_named(fi.node, "clear_graph") if norm(c.func.value) == "self"}
        cl.discard(None)
        w = cfg.all_paths_hit(ENTRY, cl, exits=(EXIT,)) if cl else [ENTRY, EXIT]
        run.ob("R07.5", loc(fi, fi.node), fi.short, f"[{label}] backward reaches self.clear_graph() on every normal exit", w is None,
               "graph-cut ENTRY->EXIT under TRACK_GRAPH=True" if w is None else "backward can return with the graph still alive",
               path=cfg.path_text(w) if w else None)


def r07_6_order(run):
    """who the base is, is settled before it is acted on: in every Tensor method, a store that detaches `self` from its base (`self._base = None`)
    is never preceded, on any path, by a call made *on* that base (`self.base.null_grad()`, handing `self.base` to a constructor).  Otherwise a
    tensor that is no longer a view of that base (its base forgot it) still drops the former base's gradient / drags it into the placeholder graph."""
    import networkx as nx
    n = 0
    T = run.project.cls(TENSOR)
    for m in T.methods.values():
        detach = [s_ for s_ in own_nodes(m.node) if isinstance(s_, ast.Assign) and any(norm(t_) == "self._base" for t_ in s_.targets)
                  and isinstance(s_.value, ast.Constant) and s_.value.value is None]
        if not detach:
            continue
        cfg = build_cfg(run, m, switch_assumptions(m, track=True))
        acts = []
        for c in own_nodes(m.node):
            if not isinstance(c, ast.Call):
                continue
            on_base = isinstance(c.func, ast.Attribute) and norm(c.func.value) in ("self.base", "self._base")
            passes = any(norm(a_) in ("self.base", "self._base") for a_ in list(c.args) + [k.value for k in c.keywords]) or any(
                isinstance(a_, ast.IfExp) and norm(a_.orelse) in ("self.base", "self._base") or isinstance(a_, ast.IfExp) and norm(a_.body) in ("self.base", "self._base")
                for a_ in c.args)
            if on_base or passes:
                nd = cfg.stmt_node_containing(c)
                if nd is not None and cfg.reachable(nd):
                    acts.append((nd, c))
        for s_ in detach:
            ns = cfg.node_for(s_)
            if ns is None or not cfg.reachable(ns):
                continue
            n += 1
            anc = nx.ancestors(cfg.g, ns)
            early = [c for nd, c in acts if nd in anc]
            run.ob("R07.6", loc(m, s_), m.short, "a stale base is detached before anything is done to `self.base`", not early,
                   f"{len(acts)} call(s) on / with self.base, none of them precedes the detaching store" if not early else
                   f"`{norm(early[0])[:50]}` runs before `self._base = None`: the gradient of a tensor that no longer tracks this view is discarded "
                   f"(or it is pulled into the placeholder graph) although the update cannot reach it")
    run.count("stale-base detach sites checked for ordering", n)


def r07_6(run):
    # (a) _op: non-view results null the grads of every tensor input before the op is recorded as their consumer
    fi = anchor_func(run, OP)
    base_assume = switch_assumptions(fi, track=True, memguard=True)
    loops = [n for n in own_nodes(fi.node) if isinstance(n, ast.For) and norm(n.iter) in ("input_vars", "tensor_vars")]
    done = False
    for lp in loops:
        if not isinstance(lp.target, ast.Name):
            continue
        v = lp.target.id
        stores = {a: [s for s in own_nodes(lp) if isinstance(s, ast.Assign) and any(norm(t) == f"{v}.{a}" for t in s.targets)
                      and isinstance(s.value, ast.Constant) and s.value.value is None] for a in ("_grad", "_view_grad")}
        calls = [c for c in calls_named(lp, "null_grad") if norm(c.func.value) == v]
        if not (stores["_grad"] or calls):
            continue
        done = True
        assume = dict(base_assume)
        assume.update({f"isinstance({v}, Tensor)": True, "base is None": True})
        cfg = build_cfg(run, fi, assume)
        head = cfg.node_for(lp)
        for a in ("_grad", "_view_grad"):
            ns = {cfg.node_for(s) for s in stores[a]} | {cfg.stmt_node_containing(c) for c in calls}
            ns.discard(None)
            ok = True
            wit = None
            for succ in cfg.succ_by_kind(head, "loop"):
                w = cfg.all_paths_hit(succ, ns, exits=(head,)) if ns else [succ, head]
                if w is not None:
                    ok, wit = False, w
            run.ob("R07.6", loc(fi, lp), fi.short, f"non-view op nulls {a} of every tensor input", ok,
                   f"under `isinstance({v}, Tensor)` and `base is None` every iteration passes the null store" if ok else
                   f"an input can enter a new non-view op keeping its old {a}", path=cfg.path_text(wit) if wit else None)
        adds = [c for c in own_nodes(fi.node) if isinstance(c, ast.Call) and isinstance(c.func, ast.Attribute)
                and c.func.attr == "add" and isinstance(c.func.value, ast.Attribute) and c.func.value.attr == "_ops"]
        for c in adds:
            na = cfg.stmt_node_containing(c)
            ok = cfg.dominates(head, na)
            run.ob("R07.6", loc(fi, c), fi.short, "grad nulling precedes the registration of the new consumer", ok,
                   "the nulling loop dominates `_ops.add`" if ok else "consumer registered before the stale gradient is dropped")
    if not done:
        run.ob("R07.6", loc(fi, fi.node), fi.short, "non-view op nulls the gradients of its tensor inputs", False,
               "no loop over the inputs sets _grad/_view_grad to None (or calls null_grad): a leaf keeps a stale gradient when it is re-used")
    # (b) collect_all...: nulls before any return
    fc = anchor_func(run, COLLECT)
    cfg = build_cfg(run, fc)
    t = fc.node.args.args[0].arg
    for a in ("_grad", "_view_grad"):
        ns = {cfg.node_for(s) for s in own_nodes(fc.node) if isinstance(s, ast.Assign)
              and any(norm(x) == f"{t}.{a}" for x in s.targets) and isinstance(s.value, ast.Constant) and s.value.value is None}
        ns |= {cfg.stmt_node_containing(c) for c in calls_named(fc.node, "null_grad") if norm(c.func.value) == t}
        ns.discard(None)
        w = cfg.all_paths_hit(ENTRY, ns, exits=(EXIT,)) if ns else [ENTRY, EXIT]
        run.ob("R07.6", loc(fc, fc.node), fc.short, f"traversal nulls {a} of every visited tensor (constants and seen ones included)",
               w is None, "graph-cut ENTRY->EXIT: the store precedes every early return" if w is None else
               f"a tensor reached by the traversal can keep a stale {a}", path=cfg.path_text(w) if w else None)
    # (c) _in_place_op: target nulled before the graph is duplicated
    #     ... in every function that builds a placeholder graph (item/augmented assignment, out=, and the .shape setter)
    anchor_func(run, INPLACE)
    builders = []
    for fp in run.project.all_functions():
        if fp.cls is None or fp.cls.qualname != TENSOR:
            continue
        graphs = [n for n in own_nodes(fp.node) if isinstance(n, ast.Assign) and isinstance(n.value, ast.Call)
                  and (dotted(n.value.func) or "").endswith("DuplicatingGraph")]
        if graphs:
            builders.append((fp, graphs))
    if not any(fp.qualname == INPLACE for fp, _g in builders):
        raise AnalysisError(f"{INPLACE}: DuplicatingGraph construction not found")
    run.count("functions building a placeholder graph", len(builders))
    for fp, graphs in builders:
        cfg = build_cfg(run, fp, switch_assumptions(fp, track=True))
        ns = {cfg.stmt_node_containing(c) for c in calls_named(fp.node, "null_grad") if norm(c.func.value) == "self"}
        both = [[cfg.node_for(s) for s in own_nodes(fp.node) if isinstance(s, ast.Assign) and any(norm(x) == f"self.{a}" for x in s.targets)
                 and isinstance(s.value, ast.Constant) and s.value.value is None] for a in ("_grad", "_view_grad")]
        ns.discard(None)
        for gr in graphs:
            # the root handed to DuplicatingGraph is the tensor that owns the memory: it gets a placeholder too, so its gradient must be gone as well
            root = gr.value.args[0] if gr.value.args else None
            alts = [(root, {})]
            if isinstance(root, ast.Name):
                # every definition of the local is one alternative, judged under the test of the conditional it is an arm of (the normal form
                # lowers `r = A if c else B` to `if c: r = A / else: r = B`)
                defs_ = [s for s in own_nodes(fp.node) if isinstance(s, ast.Assign) and len(s.targets) == 1 and norm(s.targets[0]) == root.id]
                if defs_:
                    alts = []
                    for d_ in defs_:
                        par_ = getattr(d_, "_parent", None)
                        extra_ = {}
                        if isinstance(par_, ast.If) and any(x is d_ for x in par_.body):
                            extra_ = {norm(par_.test): True}
                        elif isinstance(par_, ast.If) and any(x is d_ for x in par_.orelse):
                            extra_ = {norm(par_.test): False}
                        alts.append((d_.value, extra_))
            if isinstance(root, ast.IfExp):
                t = norm(root.test)
                alts = [(root.body, {t: True}), (root.orelse, {t: False})]
            for r_, extra in alts:
                if r_ is None or norm(r_) == "self":
                    continue
                cfr = build_cfg(run, fp, switch_assumptions(fp, track=True, extra=extra))
                ngr = cfr.node_for(gr)
                nr = {cfr.stmt_node_containing(c) for c in calls_named(fp.node, "null_grad") if norm(c.func.value) == norm(r_)}
                nr |= {cfr.node_for(s) for s in own_nodes(fp.node) if isinstance(s, ast.Assign) and any(norm(x) == f"{norm(r_)}._grad" for x in s.targets)
                       and isinstance(s.value, ast.Constant) and s.value.value is None}
                nr.discard(None)
                okr = ngr is not None and bool(nr) and cfr.set_dominates(nr, ngr)
                run.ob("R07.6", loc(fp, gr), fp.short, f"gradient of the graph root `{norm(r_)}` nulled before the placeholder graph is built", okr,
                       f"under {extra or 'all paths'} `{norm(r_)}.null_grad()` dominates DuplicatingGraph(...)" if okr else
                       f"writing through a fresh view of a tensor that still holds a gradient: the owner `{norm(r_)}` keeps its stale gradient and "
                       f"make_placeholder_tensor's assertion turns the in-place update into an AssertionError")
            ng = cfg.node_for(gr)
            if ng is None:
                continue
            ok = (bool(ns) and cfg.set_dominates(ns, ng)) or all(b and cfg.set_dominates(set(b), ng) for b in both)
            run.ob("R07.6", loc(fp, gr), fp.short, "in-place target's gradient nulled before the placeholder graph is built", ok,
                   "self.null_grad(...) dominates DuplicatingGraph(...)" if ok else
                   "a tensor that still holds the gradient of an earlier backward() is mutated without dropping it: make_placeholder_tensor "
                   "asserts `_grad is None`, so the in-place update raises AssertionError instead of discarding the stale gradient")
    # the public null_grad() only nulls gradients: it touches view information solely on behalf of internal callers
    ngf = anchor_func(run, f"{TENSOR}.null_grad")
    cfgn = build_cfg(run, ngf)
    private = [a.arg for a in ngf.node.args.kwonlyargs + ngf.node.args.args if a.arg.startswith("_")]
    others = [s for s in own_nodes(ngf.node) if isinstance(s, (ast.Assign, ast.AugAssign, ast.Delete)) and any(
        isinstance(t, ast.Attribute) and norm(t.value) == "self" and t.attr not in ("_grad", "_view_grad")
        for t in (s.targets if not isinstance(s, ast.AugAssign) else [s.target]))]
    for s in others:
        ns = cfgn.node_for(s)
        def _flag_conj(st):  # the private flag alone, or as one conjunct of the guard
            parts = st.values if isinstance(st, ast.BoolOp) and isinstance(st.op, ast.And) else [st]
            return any(isinstance(p_, ast.Name) and p_.id in private for p_ in parts)

        tests = [n for n, st in cfgn.stmt.items() if cfgn.label[n] == "If" and _flag_conj(st)]
        ok = any(cfgn.edge_dominates(t, "true", ns) for t in tests)
        run.ob("R07.6", loc(ngf, s), ngf.short, f"`{norm(s)[:40]}` in null_grad happens only for internal callers", ok,
               f"guarded by the private flag {private}" if ok else
               "a user's null_grad() on a live view changes its base/graph links: the view's .grad reads None from then on even after the "
               "base's gradient is recomputed")
    # (a') a tensor whose graph was cleared loses its lingering base whenever it enters a tracked op (view op or not)
    for lp in loops:
        if not isinstance(lp.target, ast.Name):
            continue
        v = lp.target.id
        stale = [s for s in own_nodes(lp) if isinstance(s, ast.Assign) and any(norm(t) == f"{v}._base" for t in s.targets)
                 and isinstance(s.value, ast.Constant) and s.value.value is None]
        if not stale:
            continue
        for base_is_none in (True, False):
            assume = dict(base_assume)
            assume.update({f"isinstance({v}, Tensor)": True, f"{v}._base is not None and {v}._creator is None": True,
                           "base is None": base_is_none, "base is not None": not base_is_none})
            cfgs = build_cfg(run, fi, assume)
            head = cfgs.node_for(lp)
            ns = {cfgs.node_for(s) for s in stale}
            ns.discard(None)
            ok, wit = True, None
            for succ in cfgs.succ_by_kind(head, "loop"):
                w = cfgs.all_paths_hit(succ, ns, exits=(head,)) if ns else [succ, head]
                if w is not None:
                    ok, wit = False, w
            run.ob("R07.6", loc(fi, stale[0]), fi.short, f"stale base of an input is dropped for {'non-view' if base_is_none else 'view'} ops alike", ok,
                   "the reset is reached on every iteration for a tensor with a lingering base and no creator" if ok else
                   f"for {'non-view' if base_is_none else 'view'} ops a graph-cleared view keeps its stale base: its gradient is derived from the wrong tensor "
                   f"/ reads None in the next iteration", path=cfgs.path_text(wit) if wit else None)
    # (a'') detaching a stale view changes which slot Tensor.grad reads (its own _grad instead of the base's): the view's own slot must be
    #       brought in line in the same step, otherwise a gradient that already read None (or another value) reappears after a pure view op
    for lp in loops:
        if not isinstance(lp.target, ast.Name):
            continue
        v = lp.target.id
        stale = [s for s in own_nodes(lp) if isinstance(s, ast.Assign) and any(norm(t) == f"{v}._base" for t in s.targets)
                 and isinstance(s.value, ast.Constant) and s.value.value is None]
        for st_ in stale:
            assume = dict(base_assume)
            assume.update({f"isinstance({v}, Tensor)": True, f"{v}._base is not None and {v}._creator is None": True,
                           "base is None": False, "base is not None": True})
            cfgv = build_cfg(run, fi, assume)
            head = cfgv.node_for(lp)
            nst = cfgv.node_for(st_)
            if nst is None or not cfgv.reachable(nst):
                continue  # this detaching store belongs to the other scenario (non-view op): the gradient is nulled there (clause a)
            own = {cfgv.node_for(s) for s in own_nodes(lp) if isinstance(s, ast.Assign) and any(norm(t) == f"{v}._grad" for t in s.targets)}
            own |= {cfgv.stmt_node_containing(c) for c in calls_named(lp, "null_grad") if norm(c.func.value) == v}
            own.discard(None)
            ok = nst is not None and bool(own) and all(
                cfgv.all_paths_hit(succ, own | {nst}, exits=(head,)) is None for succ in cfgv.succ_by_kind(head, "loop")) and \
                (cfgv.set_dominates(own, nst) or cfgv.all_paths_hit(nst, own, exits=(head, EXIT)) is None)
            run.ob("R07.6", loc(fi, st_), fi.short, "detaching a stale view in a view op also settles the view's own gradient slot", ok,
                   f"a store to {v}._grad accompanies `{v}._base = None` on the view-op path" if ok else
                   f"`{v}._base = None` alone: Tensor.grad switches from the base-derived value to the view's private _grad, which still holds the "
                   f"gradient of the earlier backward -- a discarded gradient (or a different value) reappears after a pure view op")
    # null_grad itself nulls both
    ng_f = anchor_func(run, f"{TENSOR}.null_grad")
    cfg = build_cfg(run, ng_f)
    for a in ("_grad", "_view_grad"):
        ns = {cfg.node_for(s) for s in own_nodes(ng_f.node) if isinstance(s, ast.Assign) and any(norm(x) == f"self.{a}" for x in s.targets)
              and isinstance(s.value, ast.Constant) and s.value.value is None}
        ns.discard(None)
        w = cfg.all_paths_hit(ENTRY, ns, exits=(EXIT,)) if ns else [ENTRY, EXIT]
        run.ob("R07.6", loc(ng_f, ng_f.node), ng_f.short, f"null_grad sets {a} to None on every path", w is None,
               "graph-cut" if w is None else f"null_grad can leave {a}")


def r07_7(run):
    """state handed to the internal ops created by _in_place_op (UnView / ApplyMask keyword arguments) must not capture a public
    tensor of the view family (self / node.tensor / graph.base.tensor): the mutated public tensor's creator chain leads to that
    op, so the capture closes a strong cycle  tensor -> creator -> op state -> tensor."""
    fi = anchor_func(run, INPLACE)
    fx = facts(run)
    from . import opcontract
    sites = [s for s in opcontract.op_sites(run) if s.fi.qualname == fi.qualname and s.op_cls is not None
             and s.op_cls.module.name == "mygrad._utils.duplicating_graph"]
    if not sites:
        raise AnalysisError(f"{fi.short}: internal UnView/ApplyMask sites not found")

    def expand(e, depth=0):
        """all expressions that may flow into e (through single-assignment locals, .append on lists, call arguments)"""
        out = [e]
        if depth > 4:
            return out
        if isinstance(e, ast.Name):
            for n in own_nodes(fi.node):
                if isinstance(n, (ast.Assign, ast.AnnAssign)) and assigned_name(n) == e.id and getattr(n, "value", None) is not None:
                    out += expand(n.value, depth + 1)
                if isinstance(n, ast.Call) and isinstance(n.func, ast.Attribute) and n.func.attr in ("append", "extend", "insert") \
                        and isinstance(n.func.value, ast.Name) and n.func.value.id == e.id:
                    for a in n.args:
                        out += expand(a, depth + 1)
        elif isinstance(e, ast.Call):
            for a in list(e.args) + [k.value for k in e.keywords]:
                out += expand(a, depth + 1)
        elif isinstance(e, (ast.List, ast.Tuple)):
            for a in e.elts:
                out += expand(a, depth + 1)
        return out

    for s in sites:
        for key, val in (s.op_kwargs or {}).items():
            flows = expand(val)
            bad = []
            for f in flows:
                for x in ast.walk(f):
                    if isinstance(x, ast.Attribute) and x.attr == "tensor":
                        bad.append(norm(x))
                    if isinstance(x, ast.Attribute) and isinstance(x.value, ast.Name) and x.value.id == "self" and x.attr.startswith("_replay"):
                        bad.append(norm(x))
            run.ob("R07.7", loc(fi, s.call), fi.short, f"state `{key}` given to internal op {s.op_cls.name}", not bad,
                   f"{len(flows)} contributing expression(s); none references a public tensor (only placeholders / arrays)" if not bad else
                   f"captures public tensor state ({bad[0]}): tensor -> creator -> {s.op_cls.name} -> tensor cycle, not freed by refcounting "
                   f"(its finalizer never releases the locked arrays)")


def check(run):
    run.rule("R07.1", "back-edges are weak: everything added to Tensor._ops is a weakref; _view_children is always a WeakRefIterable", floor=5)
    run.rule("R07.2", "no store onto an Operation instance (outside its own methods) holds the produced tensor strongly", floor=2)
    run.rule("R07.3", "arguments of weakref.finalize are containers of weak references", floor=2)
    run.rule("R07.4", "clear_graph: _ops/_view_children cleared on every call, creator dropped before recursing over all its variables", floor=5)
    run.rule("R07.5", "Tensor.backward (tracking on) reaches self.clear_graph() on every normal exit", floor=2)
    run.rule("R07.7", "state handed to the internal UnView/ApplyMask ops captures placeholders/arrays only, never a public tensor", floor=2)
    run.rule("R07.6", "gradient-nulling sites: non-view ops, the backward traversal, in-place targets, null_grad", floor=7)
    run.do(r07_1)
    run.do(r07_2)
    run.do(r07_3)
    run.do(r07_4)
    run.do(r07_5)
    run.do(r07_6)
    run.do(r07_6_order)
    run.do(r07_7)
