"""C05 -- gradients through in-place updates (narrow claim: structure of the placeholder mechanism)."""
from __future__ import annotations

import ast
from typing import List, Optional, Set

from ..cfg import ENTRY, EXIT, RAISE, reaching_defs
from ..common import calls_named, dotted, kw, loc, norm
from ..model import AnalysisError, own_nodes
from .util import specialise_defaults, anchor_func, assigned_name, build_cfg, facts, is_zero_expr, switch_assumptions
from . import c13, opcontract

TENSOR = "mygrad.tensor_base.Tensor"
DUP = "mygrad._utils.duplicating_graph"
INPLACE = f"{TENSOR}._in_place_op"


def _private_root(cfg, name: str, at: int, depth=0, seen=None) -> Optional[str]:
    """Trace the tensor `name` (whose .data is the kernel target) back through view replays to its root definition.
    Returns 'copy-of-base' | 'self' | 'other:<text>'."""
    seen = seen or set()
    res = set()
    for d in reaching_defs(cfg, name, at):
        if d == ENTRY or d in seen:
            res.add("other:undefined" if d == ENTRY else "loop")
            continue
        seen.add(d)
        v = getattr(cfg.stmt[d], "value", None)
        if isinstance(v, ast.Name):
            res.add(_private_root(cfg, v.id, d, depth + 1, seen) or "other:?")
        elif isinstance(v, ast.Call) and isinstance(v.func, ast.Attribute) and v.func.attr == "copy" and not v.args \
                and norm(v.func.value) in ("graph.base.tensor", "self"):
            res.add("copy-of-base")
        elif isinstance(v, ast.Call) and isinstance(v.func, ast.Name) and len(v.args) == 1 and isinstance(v.args[0], ast.Name):
            # f(inplace_target): f must be a placeholder's view replay; the argument carries the root
            fdefs = reaching_defs(cfg, v.func.id, d)
            fvals = [norm(getattr(cfg.stmt[x], "value", ast.Constant(0))) for x in fdefs if x != ENTRY]
            if fvals and all(t.endswith(".placeholder._replay_op") for t in fvals):
                res.add(_private_root(cfg, v.args[0].id, d, depth + 1, seen) or "other:?")
            else:
                res.add(f"other:call through {fvals}")
        else:
            res.add("other:" + (norm(v)[:40] if v is not None else "?"))
    res.discard("loop")
    if res == {"copy-of-base"}:
        return "copy-of-base"
    return sorted(res)[0] if res else None


def r05_1(run):
    fi = anchor_func(run, INPLACE)
    cfg = build_cfg(run, fi, switch_assumptions(fi, track=True))
    kern = [c for c in calls_named(fi.node, "_op") if kw(c, "out") is not None and cfg.stmt_node_containing(c) is not None
            and cfg.reachable(cfg.stmt_node_containing(c))]
    if len(kern) != 1:
        raise AnalysisError(f"{fi.short}: expected one tracked in-place kernel call")
    k = kern[0]
    tgt = kw(k, "out")
    ok = isinstance(tgt, ast.Attribute) and tgt.attr == "data" and isinstance(tgt.value, ast.Name)
    root = _private_root(cfg, tgt.value.id, cfg.stmt_node_containing(k)) if ok else None
    good = ok and root == "copy-of-base"
    run.ob("R05.1", loc(fi, k), fi.short, "tracked in-place kernel writes into (a view replay of) a private copy of the base", good,
           f"out={norm(tgt)}: every reaching definition chain ends in graph.base.tensor.copy(), through placeholder view replays only" if good else
           f"out={norm(tgt)} traces back to {root}: the kernel overwrites memory that earlier ops (now routed through placeholders) still read")
    # the copy is made after the graph was duplicated (placeholders share the *old* array) and before the kernel
    copies = [n for n, s in cfg.stmt.items() if isinstance(s, ast.Assign) and isinstance(s.value, ast.Call)
              and norm(s.value.func) == "graph.base.tensor.copy"]
    graphs = [n for n, s in cfg.stmt.items() if isinstance(s, ast.Assign) and isinstance(s.value, ast.Call)
              and (dotted(s.value.func) or "").endswith("DuplicatingGraph")]
    nk = cfg.stmt_node_containing(k)
    ok = bool(copies) and bool(graphs) and all(cfg.dominates(g, c) for g in graphs for c in copies) and all(cfg.dominates(c, nk) for c in copies)
    run.ob("R05.1", loc(fi, cfg.stmt[copies[0]] if copies else fi.node), fi.short, "order: duplicate graph -> copy base -> run kernel", ok,
           "dominance chain DuplicatingGraph(...) > graph.base.tensor.copy() > kernel" if ok else "copy/kernel ordering broken")
    # the private copy must preserve the base's memory layout (np.copy: order='K'); ndarray.copy() defaults to order='C'
    cp = specialise_defaults(anchor_func(run, f"{TENSOR}.copy"), keep=("constant",))
    builds = [c for c in own_nodes(cp.node) if isinstance(c, ast.Call) and (dotted(c.func) or "") in ("Tensor", "type(self)") and c.args]
    okl = False
    for b in builds:
        a0 = b.args[0]
        if isinstance(a0, ast.Call):
            d = dotted(a0.func) or ""
            o = kw(a0, "order")
            if d in ("np.copy", "numpy.copy") and (o is None or norm(o) in ("'K'", "'A'")):
                okl = True
            if isinstance(a0.func, ast.Attribute) and a0.func.attr == "copy" and o is not None and norm(o) in ("'K'", "'A'"):
                okl = True
    run.ob("R05.1", loc(cp, builds[0] if builds else cp.node), cp.short, "the private copy used for in-place updates preserves the base's memory layout", okl,
           "np.copy(self.data) (order='K')" if okl else
           "copy is made in C order regardless of the base's layout: reshape-like views of an F-ordered base, replayed on the copy, stop being "
           "views, so in-place updates no longer reach them")
    # untracked: straight into self.data
    cfg0 = build_cfg(run, fi, switch_assumptions(fi, track=False))
    k0 = [c for c in calls_named(fi.node, "_op") if kw(c, "out") is not None and cfg0.stmt_node_containing(c) is not None
          and cfg0.reachable(cfg0.stmt_node_containing(c))]
    ok = len(k0) == 1 and norm(kw(k0[0], "out")) == "self.data"
    run.ob("R05.1", loc(fi, k0[0] if k0 else fi.node), fi.short, "untracked in-place kernel writes into self.data", ok,
           "no graph exists that could need the old values" if ok else "untracked target is not the tensor's own memory")
    # operands of the kernel are the placeholders (pre-mutation state), not the public tensors about to be overwritten
    gens = [a for a in k.args if isinstance(a, ast.Starred)]
    ok = bool(gens) and "graph.get_placeholder_if_exists(" in norm(gens[0].value) and "input_vars" in norm(gens[0].value)
    run.ob("R05.1", loc(fi, k), fi.short, "kernel operands are replaced by their placeholders where they belong to the mutated view family", ok,
           "*(graph.get_placeholder_if_exists(t) for t in input_vars)" if ok else
           "the in-place op records the public (about to be mutated) tensors as its inputs: x[...] = f(x) differentiates through the wrong values")


def r05_2(run):
    mp = anchor_func(run, f"{DUP}.make_placeholder_tensor")
    cfg = build_cfg(run, mp)
    orig = mp.node.args.args[0].arg
    mirrors = [c for c in calls_named(mp.node, "mirror_tensor")]
    reroutes = [c for c in calls_named(mp.node, "reroute_ops_through")]
    ph = None
    for c in mirrors:
        if kw(c, "source") is not None and norm(kw(c, "source")) == orig and isinstance(kw(c, "target"), ast.Name):
            ph = kw(c, "target").id
    ok = ph is not None
    run.ob("R05.2", loc(mp, mirrors[0] if mirrors else mp.node), mp.short, "placeholder receives the original's state (same array, same creator)", ok,
           f"mirror_tensor(target={ph}, source={orig})" if ok else "placeholder is not a mirror of the original")
    good = [c for c in reroutes if kw(c, "target") is not None and norm(kw(c, "target")) == ph and kw(c, "source") is not None and norm(kw(c, "source")) == orig]
    ns = {cfg.stmt_node_containing(c) for c in good}
    w = cfg.all_paths_hit(ENTRY, ns, exits=(EXIT,)) if ns else [ENTRY, EXIT]
    run.ob("R05.2", loc(mp, good[0] if good else mp.node), mp.short, "ops that consumed the original are re-routed to the placeholder on every path", w is None,
           f"reroute_ops_through(target={ph}, source={orig}) cuts ENTRY->EXIT" if w is None else
           "earlier consumers keep pointing at the public tensor: they differentiate through post-mutation values",
           path=cfg.path_text(w) if w else None)
    rets = [r for r in own_nodes(mp.node) if isinstance(r, ast.Return)]
    ok = bool(rets) and all(r.value is not None and norm(r.value) == ph for r in rets)
    run.ob("R05.2", loc(mp, mp.node), mp.short, "the placeholder itself is returned", ok, "return placeholder" if ok else "?")
    # fresh object: built by the tensor's constructor, not the original itself
    v = facts(run)._single_local_value(mp, ph) if ph else None
    ok = isinstance(v, ast.Call) and "type(original)" in norm(v.func).replace(orig, "original") or (isinstance(v, ast.Call) and dotted(v.func) == "Tensor")
    run.ob("R05.2", loc(mp, mp.node), mp.short, "the placeholder is a new Tensor object", ok, norm(v)[:40] if v is not None else "-")
    # reroute_ops_through swaps exactly `source` for `target` in each live consumer
    rr = anchor_func(run, f"{DUP}.reroute_ops_through")
    loops = [n for n in own_nodes(rr.node) if isinstance(n, ast.For) and norm(n.iter) == "source._ops"]
    st = [s for s in own_nodes(rr.node) if isinstance(s, ast.Assign) and norm(s.targets[0]).endswith(".variables")]
    ok = bool(loops) and len(st) == 1 and isinstance(st[0].value, ast.Call) and dotted(st[0].value.func) == "tuple"
    if ok:
        g = st[0].value.args[0]
        # normal form (sa/normal.py): conditionals are oriented positively -> `target if v is source else v`
        ok = isinstance(g, ast.GeneratorExp) and isinstance(g.elt, ast.IfExp) and len(g.generators) == 1 and not g.generators[0].ifs \
            and norm(g.elt.test) in (f"{norm(g.generators[0].target)} is source", f"source is {norm(g.generators[0].target)}") \
            and norm(g.elt.orelse) == norm(g.generators[0].target) and norm(g.elt.body) == "target" \
            and norm(g.generators[0].iter).endswith(".variables")
    run.ob("R05.2", loc(rr, st[0] if st else rr.node), rr.short, "each consumer's variables tuple gets `target` exactly where `source` was (order kept)", ok,
           "tuple(v if v is not source else target for v in op.variables) for every live op in source._ops" if ok else
           "re-routing permutes / drops operands or skips consumers")
    # DuplicatingGraph covers the base and every view child, recursively
    init = anchor_func(run, f"{DUP}.DuplicatingGraph.__init__")
    base = init.node.args.args[1].arg
    recs = [c for c in calls_named(init.node, "_record_mapping")]
    ok = any(kw(c, "original") is not None and norm(kw(c, "original")) == base and "make_placeholder_tensor(" in norm(kw(c, "placeholder") or ast.Constant(0)) for c in recs)
    dups = [c for c in calls_named(init.node, "_duplicate_graph") if c.args and norm(c.args[0]) == base]
    run.ob("R05.2", loc(init, init.node), init.short, "a placeholder is created for the base and the descent over its views is started", ok and bool(dups),
           "_record_mapping(original=base, placeholder=make_placeholder_tensor(base, ...)); self._duplicate_graph(base)" if ok and dups else
           "base is not replaced by a placeholder / views not visited")
    dg = anchor_func(run, f"{DUP}.DuplicatingGraph._duplicate_graph")
    t = dg.node.args.args[1].arg
    loops = [n for n in own_nodes(dg.node) if isinstance(n, ast.For) and norm(n.iter) == f"{t}._view_children"]
    ok = False
    for lp in loops:
        ch = norm(lp.target)
        rec = [c for c in calls_named(lp, "_record_mapping") if norm(kw(c, "original") or ast.Constant(0)) == ch
               and "make_placeholder_tensor(" in norm(kw(c, "placeholder") or ast.Constant(0)) and f"original={ch}" in norm(kw(c, "placeholder")).replace(" ", "")
               and norm(kw(c, "parent") or ast.Constant(0)) == t]
        rc = [c for c in calls_named(lp, "_duplicate_graph") if c.args and norm(c.args[0]) == ch]
        if rec and rc:
            ok = True
    run.ob("R05.2", loc(dg, loops[0] if loops else dg.node), dg.short, "every view child gets a placeholder (recorded with its parent) and is descended into", ok,
           "for child in tensor._view_children: record(original=child, placeholder=make_placeholder_tensor(original=child,...), parent=tensor); recurse" if ok else
           "views of views are not all duplicated")
    # placeholders' own view-children lists point at placeholders
    vc = [s for s in own_nodes(dg.node) if isinstance(s, ast.Assign) and norm(s.targets[0]).endswith(".placeholder._view_children")]
    ok = bool(vc) and "WeakRefIterable(" in norm(vc[0].value) and ".placeholder for" in norm(vc[0].value)
    run.ob("R05.2", loc(dg, vc[0] if vc else dg.node), dg.short, "the placeholder graph's view edges connect placeholders only", ok,
           norm(vc[0].value)[:70] if vc else "not found")


def r05_6(run):
    """building the placeholder graph must leave the *original* tensors untouched (apart from re-routing their consumers), so that
    restore_old_graph can undo it"""
    MUT = {"clear", "append", "extend", "insert", "pop", "remove", "add", "discard", "update"}
    for q in (f"{DUP}.DuplicatingGraph._duplicate_graph", f"{DUP}.DuplicatingGraph.__init__", f"{DUP}.make_placeholder_tensor",
              f"{DUP}.DuplicatingGraph._record_mapping"):
        fi = anchor_func(run, q)
        params = [a.arg for a in fi.node.args.args if a.arg != "self"] + [a.arg for a in fi.node.args.kwonlyargs]
        public = {p for p in params if p not in ("placeholder",)}
        # loop variables over a public tensor's view children are public tensors too; aliases of their containers count
        changed = True
        containers = set()
        while changed:
            changed = False
            for n in own_nodes(fi.node):
                if isinstance(n, ast.For) and isinstance(n.target, ast.Name) and isinstance(n.iter, ast.Attribute) \
                        and isinstance(n.iter.value, ast.Name) and n.iter.value.id in public and n.target.id not in public:
                    public.add(n.target.id)
                    changed = True
                if isinstance(n, ast.Assign) and assigned_name(n) and isinstance(n.value, ast.Attribute) and isinstance(n.value.value, ast.Name) \
                        and n.value.value.id in public and assigned_name(n) not in containers:
                    containers.add(assigned_name(n))
                    changed = True
        bad = []
        for n in own_nodes(fi.node):
            if isinstance(n, (ast.Assign, ast.AugAssign, ast.Delete)):
                for t in (n.targets if not isinstance(n, ast.AugAssign) else [n.target]):
                    if isinstance(t, (ast.Attribute, ast.Subscript)):
                        root = t
                        while isinstance(root, (ast.Attribute, ast.Subscript)):
                            root = root.value
                        if isinstance(root, ast.Name) and (root.id in public or root.id in containers):
                            bad.append(n)
            if isinstance(n, ast.Call) and isinstance(n.func, ast.Attribute) and n.func.attr in MUT:
                root = n.func.value
                while isinstance(root, (ast.Attribute, ast.Subscript)):
                    root = root.value
                if isinstance(root, ast.Name) and (root.id in containers or (root.id in public and isinstance(n.func.value, ast.Attribute))):
                    bad.append(n)
        run.ob("R05.6", loc(fi, bad[0] if bad else fi.node), fi.short, "placeholder-graph construction does not modify the original tensors", not bad,
               f"only placeholders / the graph's own maps are written (public names tracked: {sorted(public)})" if not bad else
               f"`{norm(bad[0])[:60]}` changes an original tensor while the graph is duplicated; restore_old_graph does not undo it, so after a failed "
               f"in-place update the view family is no longer connected")


def r05_3(run):
    before = len(run.obligations)
    c13.r13_2(run)
    for o in run.obligations[before:]:
        o.rule = "R05.3"


def r05_4(run):
    """the glue ops that connect the mutated tensor to the pre-mutation graph"""
    fi = anchor_func(run, INPLACE)
    cfg = build_cfg(run, fi, switch_assumptions(fi, track=True))
    from . import opcontract
    sites = [s for s in opcontract.op_sites(run) if s.fi.qualname == fi.qualname and s.op_cls is not None]
    am = [s for s in sites if s.op_cls.name == "ApplyMask"]
    uv = [s for s in sites if s.op_cls.name == "UnView"]
    # ApplyMask only when a where-mask was recorded; operands (mutant, placeholder of self)
    ok = len(am) == 1
    if ok:
        n = cfg.stmt_node_containing(am[0].call)
        tests = [t for t, s in cfg.stmt.items() if cfg.label[t] == "If" and norm(s).endswith(".creator.where is not True")]
        ok = any(cfg.edge_dominates(t, "true", n) for t in tests) and len(am[0].tensors) == 2 and norm(am[0].tensors[1]) == "graph[self].placeholder" \
            and norm((am[0].op_kwargs or {}).get("mask") or ast.Constant(0)).endswith(".creator.where")
    run.ob("R05.4", loc(fi, am[0].call) if am else loc(fi, fi.node), fi.short, "masked in-place ufunc: old contents connected through ApplyMask(mutant, placeholder-of-target, mask=where)", ok,
           "executed exactly when the kernel recorded a where-mask; upstream operand is the target's own placeholder" if ok else
           "masked-out elements do not pass their gradient to the previous contents")
    ok = len(uv) == 1
    if ok:
        n = cfg.stmt_node_containing(uv[0].call)
        tests = [t for t, s in cfg.stmt.items() if cfg.label[t] == "If" and norm(s) in ("self.base is None", "self._base is None")]
        ok = any(cfg.edge_dominates(t, "false", n) for t in tests) and [norm(x) for x in uv[0].tensors][0] == "graph.base.placeholder" \
            and set(uv[0].op_kwargs or {}) == {"mutant_base_data", "view_fn_sequence"}
    run.ob("R05.4", loc(fi, uv[0].call) if uv else loc(fi, fi.node), fi.short, "in-place update of a view: mutated base = UnView(placeholder-of-base, mutant view)", ok,
           "executed exactly when the target is a view; first operand is the base's placeholder" if ok else
           "the untouched remainder of the base loses its connection to the upstream graph")
    mirrors = [c for c in calls_named(fi.node, "mirror_tensor") if norm(kw(c, "target") or ast.Constant(0)) == "graph.base.tensor"]
    ok = len(mirrors) == 1 and isinstance(kw(mirrors[0], "source"), ast.Name)
    if ok:
        defs = reaching_defs(cfg, kw(mirrors[0], "source").id, cfg.stmt_node_containing(mirrors[0]))
        vals = [norm(getattr(cfg.stmt[d], "value", ast.Constant(0)))[:40] for d in defs if d != ENTRY]
        ok = len(vals) == 2 and any("UnView" in v for v in vals) and any(v == "placeholder_mutant_view" for v in vals)
    run.ob("R05.4", loc(fi, mirrors[0]) if mirrors else loc(fi, fi.node), fi.short, "the public base mirrors the mutant (target was the base) or the UnView result (target was a view)", ok,
           "two reaching definitions: placeholder_mutant_view | _op(UnView, ...)" if ok else "public base is not connected to the in-place op")


def r05_5(run):
    """NumPy `where=` masks broadcast against the output; a boolean *index* does not. The mask must therefore be combined with
    gradients by broadcasting arithmetic only."""
    n = 0
    for q in (f"{DUP}.ApplyMask.backward_var", "mygrad.operation_base.Operation.backward"):
        fi = anchor_func(run, q)
        masks = {"self._mask", "self.where", "mask"}
        changed = True
        while changed:
            changed = False
            for s in own_nodes(fi.node):
                if isinstance(s, ast.Assign) and assigned_name(s) and assigned_name(s) not in masks:
                    if any(norm(x) in masks for x in ast.walk(s.value) if isinstance(x, (ast.Name, ast.Attribute))) and \
                            not any(isinstance(x, ast.BinOp) and isinstance(x.op, ast.Mult) for x in ast.walk(s.value)):
                        masks.add(assigned_name(s))
                        changed = True
        bad = []
        for x in own_nodes(fi.node):
            if isinstance(x, ast.Subscript) and any(norm(y) in masks for y in ast.walk(x.slice) if isinstance(y, (ast.Name, ast.Attribute))):
                bad.append(x)
        n += 1
        run.ob("R05.5", loc(fi, bad[0] if bad else fi.node), fi.short, "the where-mask is never used as a subscript index", not bad,
               "mask enters only through broadcasting arithmetic (grad * mask / grad * logical_not(mask))" if not bad else
               f"`{norm(bad[0])[:50]}` indexes with the mask: a mask that NumPy broadcast against the output selects the wrong elements (or raises)")


_CONCRETE = {"int_", "intc", "intp", "int8", "int16", "int32", "int64", "uint", "uint8", "uint16", "uint32", "uint64", "longlong", "float_", "float16",
             "float32", "float64", "double", "single", "half", "longdouble", "int", "float"}
_ABSTRACT = {"integer", "signedinteger", "unsignedinteger", "floating", "inexact", "number", "complexfloating", "generic", "bool_", "bool"}


def r05_7(run):
    """dtype-kind tests name an abstract scalar class.  `np.issubdtype(d, np.int_)` is true for one width only: int32/uint8 index arrays
    would not be recognised as integer-array indices, so repeated positions get no last-write resolution in SetItem.backward_var"""
    fx = facts(run)
    n = 0
    for fi in run.project.all_functions():
        for c in own_nodes(fi.node):
            if not isinstance(c, ast.Call) or len(c.args) != 2:
                continue
            d = dotted(c.func) or ""
            if d.split(".")[-1] == "issubdtype":
                cls = c.args[1]
            elif d == "issubclass" and ("dtype" in norm(c.args[0])):
                cls = c.args[1]
            else:
                continue
            n += 1
            leaf = (dotted(cls) or "").split(".")[-1]
            bad = leaf in _CONCRETE
            inidx = fi.module.name.endswith("_tensor_core_ops.indexing")
            run.ob("R05.7", loc(fi, c), fi.short, f"dtype-kind test `{norm(c)[:60]}` names an abstract class", not bad,
                   f"{leaf or norm(cls)}" if not bad else
                   f"`{norm(cls)}` is one concrete width: arrays of every other integer/float width fail the test" +
                   (" -- integer-array indices of dtype int32/uint8 are treated as basic indices and repeated positions back-propagate to every "
                    "overwritten element" if inidx else ""))
    run.count("dtype-kind tests", n)


def r05_8(run):
    """UnView.backward_var zeroes the written region *through the replayed view functions*: the buffer they are replayed on must be laid out
    like the base (allocated *_like(<base placeholder>.data)), otherwise a reshape in the sequence copies instead of viewing"""
    fi = anchor_func(run, "mygrad._utils.duplicating_graph.UnView.backward_var")
    cfg = build_cfg(run, fi, {"index": 0, "index == 0": True})
    zero = [s for s in own_nodes(fi.node) if (isinstance(s, ast.AugAssign) and isinstance(s.op, ast.Mult) and norm(s.value) in ("0", "0.0"))
            or (isinstance(s, ast.Assign) and isinstance(s.targets[0], ast.Subscript) and norm(s.value) in ("0", "0.0"))]
    zero = [z for z in zero if cfg.node_for(z) is not None and cfg.reachable(cfg.node_for(z))]
    if not zero:
        raise AnalysisError(f"{fi.short}: the statement zeroing the view region was not found")
    tgt = zero[0].target if isinstance(zero[0], ast.AugAssign) else zero[0].targets[0].value
    # chase plain copies and `x = fn(x)` replays back to the allocation
    seen, work, allocs = set(), [(norm(tgt), cfg.node_for(zero[0]))], []
    while work:
        name, at = work.pop()
        for d in reaching_defs(cfg, name, at):
            if d == ENTRY or (name, d) in seen:
                if d == ENTRY:
                    allocs.append(None)
                continue
            seen.add((name, d))
            v = getattr(cfg.stmt[d], "value", None)
            if isinstance(v, ast.Name):
                work.append((v.id, d))
            elif isinstance(v, ast.Call) and len(v.args) == 1 and not v.keywords and isinstance(v.args[0], ast.Name) \
                    and not (dotted(v.func) or "").endswith(("_like", "copy", "asarray", "array")):
                work.append((v.args[0].id, d))  # grad_view = fn(grad_view) / self._apply_view_fns(grad): a view of its argument
            else:
                allocs.append(v)
    unpack = [s for s in own_nodes(fi.node) if isinstance(s, ast.Assign) and norm(s.value) == "self.variables" and isinstance(s.targets[0], ast.Tuple)]
    base_names = {"self.variables[0]"} | ({norm(unpack[0].targets[0].elts[0])} if unpack else set())

    def like_base(v):
        return isinstance(v, ast.Call) and (dotted(v.func) or "").split(".")[-1] in ("empty_like", "zeros_like", "ones_like", "full_like") \
            and v.args and norm(v.args[0]) in {f"{b}.data" for b in base_names}

    ok = bool(allocs) and all(like_base(v) for v in allocs)
    bad = next((v for v in allocs if not like_base(v)), None)
    run.ob("R05.8", loc(fi, zero[0]), fi.short, "the buffer on which UnView replays the view functions is allocated with the base's memory layout", ok,
           "*_like(<base placeholder>.data) reaches the zeroing statement through the replayed view functions" if ok else
           f"the buffer comes from `{norm(bad)[:50] if bad is not None else 'the incoming gradient itself'}`: its layout is that of the incoming gradient (or C order), "
           f"not the base's; for an F-ordered base a reshape in the view sequence copies, the region is zeroed in the copy (or the internal assertion fails) "
           f"and every backward() after an in-place write through such a view is wrong or raises")


_SHAPE_ATTRS = {"ndim", "shape", "size", "dtype", "base", "flags", "strides", "itemsize", "nbytes"}


def _value_names(e: ast.AST) -> Set[str]:
    """names whose array *values* flow into `e` (uses of x.shape / x.ndim / x.dtype / len(x) carry no values)"""
    out: Set[str] = set()
    stack = [e]
    while stack:
        n = stack.pop()
        if isinstance(n, ast.Attribute) and n.attr in _SHAPE_ATTRS:
            continue
        if isinstance(n, ast.Call) and isinstance(n.func, ast.Name) and n.func.id in ("len", "isinstance", "type"):
            continue
        if isinstance(n, ast.Name):
            out.add(n.id)
        stack.extend(ast.iter_child_nodes(n))
    return out


def _grad_derived(fn: ast.AST, seed: str) -> Set[str]:
    """names whose value is computed from `seed` (flow-insensitive closure over plain/augmented assignments and for-targets)"""
    der = {seed}
    changed = True
    while changed:
        changed = False
        for n in own_nodes(fn):
            tgts, val = [], None
            if isinstance(n, ast.Assign):
                tgts, val = n.targets, n.value
            elif isinstance(n, ast.AugAssign):
                tgts, val = [n.target], n.value
            elif isinstance(n, ast.AnnAssign) and n.value is not None:
                tgts, val = [n.target], n.value
            if val is None:
                continue
            if _value_names(val) & der:
                for t in tgts:
                    for x in ast.walk(t):
                        if isinstance(x, ast.Name) and isinstance(x.ctx, ast.Store) and x.id not in der:
                            der.add(x.id)
                            changed = True
    return der


def _scalings(fn: ast.AST, der: Set[str]):
    """multiplications one of whose operands carries the gradient: (node, text)"""
    def carries(e):
        return not isinstance(e, (ast.Tuple, ast.List)) and bool(_value_names(e) & der)
    for n in own_nodes(fn):
        if isinstance(n, ast.BinOp) and isinstance(n.op, (ast.Mult, ast.MatMult)) and (carries(n.left) or carries(n.right)):
            yield n, norm(n)
        elif isinstance(n, ast.AugAssign) and isinstance(n.op, ast.Mult) and carries(n.target):
            yield n, norm(n)
        elif isinstance(n, ast.Call) and (dotted(n.func) or norm(n.func)).split(".")[-1] in ("multiply", "prod") and any(carries(a) for a in n.args):
            yield n, norm(n)


def _selections(fn: ast.AST, der: Set[str]):
    """statements that route by assignment/selection: `<g>[...] = 0`, where(mask, <zero>, g) / where(mask, g, <zero>), copyto/putmask(g, 0, ...)"""
    for n in own_nodes(fn):
        if isinstance(n, ast.Assign) and isinstance(n.targets[0], ast.Subscript) and is_zero_expr(n.value) \
                and isinstance(n.targets[0].value, ast.Name) and n.targets[0].value.id in der:
            yield n
        elif isinstance(n, ast.Call):
            leaf = (dotted(n.func) or norm(n.func)).split(".")[-1]
            if leaf == "where" and len(n.args) == 3 and any(is_zero_expr(a) for a in n.args[1:]) \
                    and any(isinstance(a, ast.Name) and a.id in der for a in n.args[1:]):
                yield n
            elif leaf in ("copyto", "putmask", "place") and len(n.args) >= 2 and isinstance(n.args[0], ast.Name) and n.args[0].id in der \
                    and any(is_zero_expr(a) for a in n.args[1:]):
                yield n


def r05_9(run):
    """Routing, not scaling.  The ops that *route* gradient around an in-place write -- SetItem (the overwritten region of the target, the
    redundantly set entries of the value), UnView (the region written through a view), ApplyMask (the masked-in entries of the old contents)
    and the where-mask of a ufunc in Operation.backward -- must drop the excluded entries by assignment or selection.  Scaling by a 0/1 mask
    is not the same function under IEEE arithmetic: 0 * nan = 0 * inf = nan, so a non-finite gradient that arrives at an overwritten /
    masked-out entry (the usual `z[bad] = 0; sqrt(z)` sanitising pattern) leaks into the old contents."""
    proj = run.project
    opbase = proj.cls("mygrad.operation_base.Operation")
    routing = [c for c in proj.operation_classes()
               if c.module.name.endswith("_utils.duplicating_graph") or c.qualname.endswith("_tensor_core_ops.indexing.SetItem")]
    if not any(c.qualname.endswith("SetItem") for c in routing) or len(routing) < 3:
        raise AnalysisError("routing ops (SetItem and the glue ops of duplicating_graph) not found")
    nsel = 0
    for c in routing:
        fi = c.methods.get("backward_var")
        if fi is None:
            continue
        a = fi.node.args.args
        gname = a[1].arg if len(a) > 1 else "grad"
        der = _grad_derived(fi.node, gname)
        sel = list(_selections(fi.node, der))
        nsel += len(sel)
        for n in sel:
            run.ob("R05.9", loc(fi, n), fi.short, f"excluded entries dropped by assignment/selection `{norm(n)[:50]}`", True, "no arithmetic on the dropped entries")
        for n, txt in _scalings(fi.node, der):
            run.ob("R05.9", loc(fi, n), fi.short, f"gradient scaled `{txt[:60]}` in a routing op", False,
                   "a routing op multiplies the gradient: entries meant to pass nothing are computed as 0 * g, which is nan for a non-finite g "
                   "(IEEE) -- the old contents of an overwritten / masked entry receive nan instead of nothing")
    # the where-mask of a ufunc, applied centrally
    fi = anchor_func(run, "mygrad.operation_base.Operation.backward")
    cfgw = build_cfg(run, fi, {"self.where is not True": True})
    cfgn = build_cfg(run, fi, {"self.where is not True": False})
    app = [n for n in own_nodes(fi.node) if isinstance(n, (ast.Assign, ast.AugAssign)) and "self.where" in norm(n)
           and cfgw.node_for(n) is not None and cfgw.reachable(cfgw.node_for(n))
           and (cfgn.node_for(n) is None or not cfgn.reachable(cfgn.node_for(n)))]
    if not app:
        raise AnalysisError(f"{fi.short}: the statement applying self.where to a contribution was not found")
    for n in app:
        v = n.value
        mult = isinstance(n, ast.AugAssign) and isinstance(n.op, ast.Mult) or any(
            (isinstance(x, ast.BinOp) and isinstance(x.op, ast.Mult) and "self.where" in (norm(x.left), norm(x.right)))
            or (isinstance(x, ast.Call) and (dotted(x.func) or "").split(".")[-1] == "multiply" and any(norm(y) == "self.where" for y in x.args))
            for x in ast.walk(v))
        sel = any(isinstance(x, ast.Call) and (dotted(x.func) or norm(x.func)).split(".")[-1] == "where" and len(x.args) == 3
                  and norm(x.args[0]) == "self.where" and is_zero_expr(x.args[2]) for x in ast.walk(v))
        nsel += 1 if sel else 0
        run.ob("R05.9", loc(fi, n), fi.short, "where-mask of a ufunc selects the contribution", sel and not mult,
               "np.where(self.where, g, <zero>)" if sel and not mult else
               "the contribution is multiplied by the mask: a non-finite gradient at a masked-out entry reaches the ufunc's operands as nan (0 * nan), "
               "where the functional program where(mask, f(x), old) passes nothing")
    run.count("routing statements (assignment/selection)", nsel)


def r05_10(run):
    """index classifiers decide from np.asarray(ind) alone.  NumPy performs advanced indexing for every object that converts to an integer (boolean)
    array -- ndarrays, sequences, Tensors and any other __array__ provider; a classifier that additionally requires the element to be an
    instance of a closed list of Python types misses the others, and repeated positions then get no last-write resolution."""
    n = 0
    for q in ("mygrad._tensor_core_ops.indexing._is_int_array_index", "mygrad._tensor_core_ops.indexing._is_bool_array_index"):
        fi = anchor_func(run, q)
        tests = [c for c in own_nodes(fi.node) if isinstance(c, ast.Call) and isinstance(c.func, ast.Name) and c.func.id in ("isinstance", "hasattr")]
        tests += [c for c in own_nodes(fi.node) if isinstance(c, ast.Compare) and any(
            isinstance(x, ast.Call) and isinstance(x.func, ast.Name) and x.func.id == "type" for x in [c.left] + list(c.comparators))]
        n += 1
        neg = set()
        for u in own_nodes(fi.node):
            if isinstance(u, ast.UnaryOp) and isinstance(u.op, ast.Not):
                neg |= {id(x) for x in ast.walk(u.operand)}
        harmless = {"slice", "type(None)", "type(Ellipsis)", "type(...)", "NoneType", "EllipsisType", "int", "float", "bool", "Number", "Integral", "Real", "str"}
        bad = None
        for t in tests:
            if isinstance(t, ast.Call) and t.func.id == "isinstance" and id(t) in neg and len(t.args) == 2:
                tys = t.args[1].elts if isinstance(t.args[1], ast.Tuple) else [t.args[1]]
                if all(norm(x).split(".")[-1] in harmless or norm(x) in harmless for x in tys):
                    continue  # excluding things that can never be an array index narrows nothing
            bad = t
            break
        run.ob("R05.10", loc(fi, bad if bad is not None else fi.node), fi.short, "index classification depends on np.asarray(ind) only", bad is None,
               "dtype kind / ndim / length of the converted element; no test of the element's Python type" if bad is None else
               f"`{norm(bad)[:60]}` restricts the classifier to a closed list of Python types: an index given as any other array-like (a Tensor, "
               f"an object with __array__) is classified as basic, so SetItem.backward_var skips the last-write resolution for repeated positions")
    run.count("index classifiers", n)


def r05_11(run):
    """object identities of operands are not frozen in the forward pass.  An in-place update re-routes every recorded op through placeholder
    tensors (reroute_ops_through swaps the entries of op.variables): state keyed on id(<operand>) that was computed in __call__ refers to
    tensors the op no longer holds, so backward looks up the wrong entry (EinSum's repeated-operand cache is built lazily for this reason)."""
    n = 0
    for c in run.project.concrete_ops():
        for mname, m in c.methods.items():
            ids = [x for x in own_nodes(m.node) if isinstance(x, ast.Call) and isinstance(x.func, ast.Name) and x.func.id == "id" and x.args]
            for x in ids:
                n += 1
                if isinstance(x.args[0], ast.Attribute) and x.args[0].attr == "data":
                    run.ob("R05.11", loc(m, x), m.short, f"`{norm(x)[:40]}` identifies an operand by its tensor, not by its array", False,
                           "id(<tensor>.data) keys an operand by the ndarray it wraps: distinct tensors can wrap one array (astensor(x, constant=True), "
                           "Tensor(arr, copy=False), placeholders), so a constant operand sharing memory with a variable is counted as a second occurrence "
                           "of that variable -- its gradient is scaled as if the constant were differentiated through")
                    continue
                fwd = mname in ("__call__", "__init__")
                run.ob("R05.11", loc(m, x), m.short, f"`{norm(x)[:40]}` is evaluated at backward time", not fwd,
                       "identity read from the op's current variables when it is needed" if not fwd else
                       "an operand's id() is recorded during the forward pass: after an in-place update the op's variables are placeholders with other "
                       "ids, and the recorded key no longer matches (an earlier op sends a wrong share of its gradient to the pre-mutation tensor)")
    run.count("id() uses in op methods", n)


def r05_12(run):
    """backward code reads operand values through self.variables only.  An in-place update of a public tensor re-routes every recorded op to a
    placeholder that keeps the pre-mutation array -- by replacing the entries of op.variables.  A reference to the operand tensor that the op
    keeps on the side (`self.gamma = gamma`) still points at the public tensor: reading its `.data` in backward differentiates an earlier
    operation through the post-mutation values."""
    n = 0
    for c in run.project.concrete_ops():
        callm = c.lookup_method("__call__")
        if callm is None:
            continue
        v = opcontract.variables_of(run, c)
        tparams = set(v.params) if v is not None and not v.star else set()
        if not tparams:
            continue
        # attributes bound (possibly conditionally / through a local alias) to an operand tensor
        alias = {p_: p_ for p_ in tparams}
        kept = {}
        for st in own_nodes(callm.node):
            if isinstance(st, ast.Assign) and len(st.targets) == 1:
                t, val = st.targets[0], st.value
                roots = {x.id for x in ast.walk(val) if isinstance(x, ast.Name)} & set(alias)
                is_tensor_expr = isinstance(val, ast.Name) or (isinstance(val, ast.IfExp) and all(
                    isinstance(b_, ast.Name) or (isinstance(b_, ast.Constant) and b_.value is None) for b_ in (val.body, val.orelse)))
                if isinstance(t, ast.Attribute) and norm(t.value) == "self" and t.attr != "variables" and roots and is_tensor_expr:
                    kept[t.attr] = sorted(roots)[0]
        if not kept:
            continue
        for mname in ("backward_var", "backward"):
            m = c.methods.get(mname)
            if m is None:
                continue
            # references re-homed from self.variables at the head of the method (`(self.X, self.W, ...) = self.variables`, or
            # `self.gamma = self.variables[1]`) are current: the store must dominate the read
            cfgm = build_cfg(run, m)
            rehomed = {}
            for st in own_nodes(m.node):
                if isinstance(st, ast.Assign) and norm(st.value).startswith("self.variables"):
                    for t_ in st.targets:
                        for x in ast.walk(t_):
                            if isinstance(x, ast.Attribute) and norm(x.value) == "self" and isinstance(x.ctx, ast.Store):
                                rehomed.setdefault(x.attr, []).append(cfgm.node_for(st))
            reads = []
            for x in own_nodes(m.node):
                if isinstance(x, ast.Attribute) and x.attr == "data" and isinstance(x.value, ast.Attribute) \
                        and norm(x.value.value) == "self" and x.value.attr in kept:
                    at = cfgm.stmt_node_containing(x)
                    doms = [d_ for d_ in rehomed.get(x.value.attr, []) if d_ is not None and at is not None and cfgm.dominates(d_, at)]
                    if not doms:
                        reads.append(x)
            n += 1
            attrs = sorted({x.value.attr for x in reads})
            run.ob("R05.12", loc(m, reads[0] if reads else m.node), m.short,
                   "operand values are read through self.variables, not through references kept on the side", not reads,
                   f"the kept references {sorted(kept)} are only tested (is None / .constant), never dereferenced for data" if not reads else
                   f"reads .data of {['self.' + a_ for a_ in attrs]}: these still point at the public tensors after an in-place update re-routed "
                   f"self.variables to the pre-mutation placeholders, so this (earlier) operation is differentiated at the post-mutation values")
    run.count("backward methods of ops keeping operand references", n)


def check(run):
    run.rule("R05.1", "the tracked in-place kernel writes into a private copy of the base (def-use chain to graph.base.tensor.copy()), made after "
             "the graph duplication; operands are placeholders", floor=4)
    run.rule("R05.2", "placeholders mirror the originals and take over their consumers; every member of the view family gets one", floor=8)
    run.rule("R05.3", "ordering/rollback: duplication dominates the kernel, kernel dominates every mirror (= R13.2)", floor=5)
    run.rule("R05.6", "building the placeholder graph leaves the original tensors untouched", floor=4)
    run.rule("R05.5", "where-masks are applied by broadcasting arithmetic, never as an index", floor=2)
    run.rule("R05.4", "ApplyMask / UnView glue ops are created under exactly their conditions with the placeholder operands", floor=3)
    run.do(r05_1)
    run.do(r05_2)
    run.do(r05_3)
    run.do(r05_4)
    run.do(r05_5)
    run.do(r05_6)
    run.rule("R05.7", "dtype-kind tests (np.issubdtype / issubclass on a dtype) name abstract scalar classes, never one concrete width", floor=8)
    run.do(r05_7)
    run.rule("R05.8", "UnView replays the view functions on a buffer laid out like the base", floor=1)
    run.do(r05_8)
    run.rule("R05.9", "routing ops (SetItem, UnView, ApplyMask) and the ufunc where-mask drop excluded entries by assignment/selection, never by "
             "scaling with a 0/1 mask (0 * nan = nan leaks a non-finite gradient into overwritten / masked-out contents)", floor=4)
    run.do(r05_9)
    run.rule("R05.12", "backward code dereferences operand tensors through self.variables only (kept side references are not re-routed)", floor=2)
    run.do(r05_12)
    run.rule("R05.11", "ops never freeze id(<operand>) in their forward pass (placeholder re-routing replaces op.variables)", floor=1)
    run.do(r05_11)
    run.rule("R05.10", "index classifiers decide from the converted element (dtype kind, ndim), not from its Python type", floor=2)
    run.do(r05_10)
