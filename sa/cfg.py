"""Statement-level control-flow graph with exceptional edges and *mode specialisation*.

Nodes are integers; ``cfg.stmt[n]`` is the AST statement (or a test expression for branch nodes,
or an ``ast.ExceptHandler`` for handler entry nodes).  Special nodes: ENTRY, EXIT (normal return),
RAISE (exceptional exit).  Edge attribute ``kind``: 'seq' | 'true' | 'false' | 'exc' | 'loop' | 'back'.

Specialisation: ``assume`` maps normalised expression text (``_track.TRACK_GRAPH``, ``index`` ...) to
a Python constant; branch tests are three-valued-evaluated and dead edges are not built.

May-raise: ``may_raise(call_node) -> bool`` is supplied by the caller (a summary over the call graph);
``raise`` statements and ``assert`` always get an exceptional edge.
"""
from __future__ import annotations

import ast
from typing import Callable, Dict, Iterable, List, Optional, Set

import networkx as nx

from .model import norm

ENTRY, EXIT, RAISE = 0, 1, 2
UNKNOWN = object()


def eval3(test: ast.AST, assume: Dict[str, object]):
    """Three-valued evaluation of a test under assumptions. Returns True/False/UNKNOWN (or a constant)."""
    if not assume:
        if isinstance(test, ast.Constant):
            return test.value
        return UNKNOWN
    key = norm(test)
    if key in assume:
        return assume[key]
    if isinstance(test, ast.Compare) and len(test.ops) == 1 and isinstance(test.ops[0], (ast.Is, ast.IsNot, ast.In, ast.NotIn)):
        # an assumption stated for one polarity of an identity / membership test decides the other (the normal form of sa/normal.py
        # orients two-armed conditionals positively, so `x is not None: True` must also answer `x is None`)
        flip = {ast.Is: ast.IsNot, ast.IsNot: ast.Is, ast.In: ast.NotIn, ast.NotIn: ast.In}[type(test.ops[0])]
        nkey = norm(ast.Compare(left=test.left, ops=[flip()], comparators=test.comparators))
        if nkey in assume and isinstance(assume[nkey], bool):
            return not assume[nkey]
    if isinstance(test, ast.Constant):
        return test.value
    if isinstance(test, ast.UnaryOp) and isinstance(test.op, ast.Not):
        v = eval3(test.operand, assume)
        return UNKNOWN if v is UNKNOWN else (not v)
    if isinstance(test, ast.BoolOp):
        vals = [eval3(v, assume) for v in test.values]
        if isinstance(test.op, ast.And):
            if any(v is not UNKNOWN and not v for v in vals):
                return False
            if all(v is not UNKNOWN for v in vals):
                return vals[-1]
            return UNKNOWN
        else:
            if any(v is not UNKNOWN and bool(v) for v in vals):
                return True
            if all(v is not UNKNOWN for v in vals):
                return vals[-1]
            return UNKNOWN
    if isinstance(test, ast.Compare) and len(test.ops) == 1:
        l = eval3(test.left, assume)
        r = eval3(test.comparators[0], assume)
        if l is UNKNOWN or r is UNKNOWN:
            return UNKNOWN
        op = test.ops[0]
        try:
            if isinstance(op, ast.Is):
                return l is r
            if isinstance(op, ast.IsNot):
                return l is not r
            if isinstance(op, ast.Eq):
                return l == r
            if isinstance(op, ast.NotEq):
                return l != r
            if isinstance(op, ast.Lt):
                return l < r
            if isinstance(op, ast.LtE):
                return l <= r
            if isinstance(op, ast.Gt):
                return l > r
            if isinstance(op, ast.GtE):
                return l >= r
        except Exception:
            return UNKNOWN
    return UNKNOWN


def calls_in(node: ast.AST) -> List[ast.Call]:
    """Calls syntactically inside a statement header / simple statement (not nested defs/lambdas)."""
    out = []
    stack = [node]
    while stack:
        n = stack.pop()
        if isinstance(n, (ast.FunctionDef, ast.AsyncFunctionDef, ast.ClassDef, ast.Lambda)) and n is not node:
            continue
        if isinstance(n, ast.Call):
            out.append(n)
        stack.extend(ast.iter_child_nodes(n))
    return out


class CFG:
    def __init__(self, fn_node: ast.AST, assume: Optional[Dict[str, object]] = None,
                 may_raise: Optional[Callable[[ast.Call], bool]] = None,
                 stmt_may_raise: Optional[Callable[[ast.AST], bool]] = None):
        self.fn = fn_node
        self.assume = dict(assume or {})
        if self.assume:
            self._alias_assumptions()
        self.may_raise = may_raise or (lambda c: False)
        self.stmt_may_raise = stmt_may_raise
        self.g = nx.DiGraph()
        self.stmt: Dict[int, ast.AST] = {}
        self.label: Dict[int, str] = {ENTRY: "ENTRY", EXIT: "EXIT", RAISE: "RAISE"}
        self.node_of: Dict[int, int] = {}  # id(ast stmt) -> node (the normal-continuation copy)
        self.all_nodes_of: Dict[int, List[int]] = {}  # id(ast stmt) -> every copy (finally bodies are built twice)
        self._n = 3
        for s in (ENTRY, EXIT, RAISE):
            self.g.add_node(s)
        self._handlers: List[List] = []  # stack of (handlers list, handler entry nodes)
        self._finally: List = []
        self._loops: List = []  # (head, after)
        outs = self._body(fn_node.body, [(ENTRY, "seq")])
        for p, k in outs:
            self._edge(p, EXIT, k)
        self._dom = None
        self._pdom = None

    def _alias_assumptions(self):
        """A local that is bound exactly once, to an expression whose truth value the assumptions decide (`clears = base is None`), is itself decided:
        tests may then be spelled through the local without the specialisation losing them."""
        counts: Dict[str, int] = {}
        single: Dict[str, ast.expr] = {}
        params = set()
        a = getattr(self.fn, "args", None)
        if a is not None:
            params = {x.arg for x in a.posonlyargs + a.args + a.kwonlyargs} | ({a.vararg.arg} if a.vararg else set()) | ({a.kwarg.arg} if a.kwarg else set())
        stack = list(ast.iter_child_nodes(self.fn))
        while stack:
            n = stack.pop()
            if isinstance(n, (ast.FunctionDef, ast.AsyncFunctionDef, ast.ClassDef, ast.Lambda)):
                continue
            if isinstance(n, ast.Name) and isinstance(n.ctx, (ast.Store, ast.Del)):
                counts[n.id] = counts.get(n.id, 0) + 1
            if isinstance(n, ast.Assign) and len(n.targets) == 1 and isinstance(n.targets[0], ast.Name):
                single[n.targets[0].id] = n.value
            stack.extend(ast.iter_child_nodes(n))
        # projection locals (`out_base = tensor_out.data.base`): an assumption about the projected expression also decides tests spelled
        # through the local
        def _dotted(e):
            parts = []
            while isinstance(e, ast.Attribute):
                parts.append(e.attr)
                e = e.value
            if isinstance(e, ast.Name):
                parts.append(e.id)
                return ".".join(reversed(parts))
            return None
        import re as _re
        for nm, val in single.items():
            if counts.get(nm) != 1 or nm in params:
                continue
            d = _dotted(val)
            if d is None or d == nm:
                continue
            pat = _re.compile(r"(?<![\w.])" + _re.escape(d) + r"(?![\w])")
            for k in list(self.assume):
                if isinstance(k, str) and pat.search(k):
                    self.assume.setdefault(pat.sub(nm, k), self.assume[k])
        for _ in range(3):
            changed = False
            for nm, val in single.items():
                if counts.get(nm) != 1 or nm in params or nm in self.assume:
                    continue
                if isinstance(val, ast.Constant):
                    continue
                r = eval3(val, self.assume)
                if r is True or r is False:
                    self.assume[nm] = r
                    changed = True
            if not changed:
                break

    # -------------------------------------------------------------- construction helpers
    def _new(self, stmt: ast.AST, label: str = None) -> int:
        n = self._n
        self._n += 1
        self.g.add_node(n)
        self.stmt[n] = stmt
        self.label[n] = label or type(stmt).__name__
        if id(stmt) not in self.node_of:
            self.node_of[id(stmt)] = n
        self.all_nodes_of.setdefault(id(stmt), []).append(n)
        return n

    def _edge(self, a: int, b: int, kind: str = "seq"):
        if self.g.has_edge(a, b):
            kinds = self.g[a][b]["kinds"]
            kinds.add(kind)
        else:
            self.g.add_edge(a, b, kinds={kind})

    def _connect(self, preds, n):
        for p, k in preds:
            self._edge(p, n, k)

    def _exc_target(self, n: int):
        """Add the exceptional edge(s) out of node n."""
        if self._handlers:
            # innermost try: any handler may catch; if no bare/Exception handler the exception may also escape
            entry_nodes, catches_all, outer = self._handlers[-1]
            for h in entry_nodes:
                self._edge(n, h, "exc")
            if not catches_all:
                self._exc_outer(n, len(self._handlers) - 1)
        else:
            self._edge(n, RAISE, "exc")

    def _exc_outer(self, n: int, depth: int):
        if depth <= 0:
            self._edge(n, RAISE, "exc")
            return
        entry_nodes, catches_all, _ = self._handlers[depth - 1]
        for h in entry_nodes:
            self._edge(n, h, "exc")
        if not catches_all:
            self._exc_outer(n, depth - 1)

    def _maybe_exc(self, n: int, node: ast.AST):
        if self.stmt_may_raise is not None and self.stmt_may_raise(node):
            self._exc_target(n)
            return
        for c in calls_in(node):
            if self.may_raise(c):
                self._exc_target(n)
                return
        # Inside a try-block the author expects the body to be able to raise what the handlers catch
        # (KeyError from a subscript, AttributeError from an attribute ...): give every non-trivial statement
        # an edge to the handlers of the *innermost* try only (never outward: no spurious RAISE exits).
        if self._handlers and self._handlers[-1][2] != "finally" \
                and any(isinstance(x, (ast.Call, ast.Subscript, ast.Attribute, ast.BinOp)) for x in ast.walk(node)):
            for h in self._handlers[-1][0]:
                self._edge(n, h, "exc")

    # -------------------------------------------------------------- statements
    def _body(self, body: Iterable[ast.stmt], preds):
        for st in body:
            if not preds:
                break  # unreachable code
            preds = self._stmt(st, preds)
        return preds

    def _stmt(self, st: ast.stmt, preds):
        if isinstance(st, ast.If):
            return self._if(st, preds)
        if isinstance(st, (ast.For, ast.AsyncFor)):
            return self._for(st, preds)
        if isinstance(st, ast.While):
            return self._while(st, preds)
        if isinstance(st, ast.Try):
            return self._try(st, preds)
        if isinstance(st, (ast.With, ast.AsyncWith)):
            n = self._new(st, "With")
            self._connect(preds, n)
            for it in st.items:
                self._maybe_exc(n, it.context_expr)
            return self._body(st.body, [(n, "seq")])
        if isinstance(st, ast.Return):
            n = self._new(st, "Return")
            self._connect(preds, n)
            if st.value is not None:
                self._maybe_exc(n, st.value)
            self._edge(n, EXIT, "return")
            return []
        if isinstance(st, ast.Raise):
            n = self._new(st, "Raise")
            self._connect(preds, n)
            self._exc_target(n)
            return []
        if isinstance(st, ast.Assert):
            v = eval3(st.test, self.assume)
            n = self._new(st, "Assert")
            self._connect(preds, n)
            if v is UNKNOWN or not v:
                self._exc_target(n)
            if v is not UNKNOWN and not v:
                return []
            return [(n, "seq")]
        if isinstance(st, ast.Break):
            n = self._new(st, "Break")
            self._connect(preds, n)
            if self._loops:
                self._loops[-1][1].append((n, "break"))
            return []
        if isinstance(st, ast.Continue):
            n = self._new(st, "Continue")
            self._connect(preds, n)
            if self._loops:
                self._edge(n, self._loops[-1][0], "back")
            return []
        if isinstance(st, (ast.FunctionDef, ast.AsyncFunctionDef, ast.ClassDef)):
            n = self._new(st, "Def")
            self._connect(preds, n)
            return [(n, "seq")]
        # simple statement
        n = self._new(st)
        self._connect(preds, n)
        self._maybe_exc(n, st)
        return [(n, "seq")]

    def _if(self, st: ast.If, preds):
        v = eval3(st.test, self.assume)
        n = self._new(st.test, "If")
        self.node_of[id(st)] = n
        self._connect(preds, n)
        self._maybe_exc(n, st.test)
        outs = []
        if v is UNKNOWN or v:
            outs += self._body(st.body, [(n, "true")])
        if v is UNKNOWN or not v:
            if st.orelse:
                outs += self._body(st.orelse, [(n, "false")])
            else:
                outs.append((n, "false"))
        return outs

    def _for(self, st, preds):
        head = self._new(st, "For")
        self._connect(preds, head)
        self._maybe_exc(head, st.iter)
        after: List = []
        self._loops.append((head, after))
        outs = self._body(st.body, [(head, "loop")])
        self._loops.pop()
        for p, k in outs:
            self._edge(p, head, "back")
        ex = [(head, "exhausted")]
        if st.orelse:
            ex = self._body(st.orelse, ex)
        return ex + after

    def _while(self, st, preds):
        v = eval3(st.test, self.assume)
        head = self._new(st.test, "While")
        self.node_of[id(st)] = head
        self._connect(preds, head)
        self._maybe_exc(head, st.test)
        after: List = []
        self._loops.append((head, after))
        outs = []
        if v is UNKNOWN or v:
            outs = self._body(st.body, [(head, "true")])
        self._loops.pop()
        for p, k in outs:
            self._edge(p, head, "back")
        ex = []
        if v is UNKNOWN or not v:
            ex = [(head, "false")]
            if st.orelse:
                ex = self._body(st.orelse, ex)
        return ex + after

    def _try(self, st: ast.Try, preds):
        entry_nodes = []
        catches_all = False
        for h in st.handlers:
            hn = self._new(h, "Except")
            entry_nodes.append(hn)
            if h.type is None or norm(h.type) in ("Exception", "BaseException"):
                catches_all = True
        has_finally = bool(st.finalbody)
        fin = None
        if has_finally:
            # every exception leaving the body / handlers / else passes through the finally block: a pseudo-handler
            # that catches everything, runs a second copy of the finally body and re-raises outward
            fin = self._n
            self._n += 1
            self.g.add_node(fin)
            self.stmt[fin] = st
            self.label[fin] = "FinallyExc"
            self._handlers.append(([fin], True, "finally"))
        self._handlers.append((entry_nodes, catches_all, None))
        outs = self._body(st.body, preds)
        self._handlers.pop()
        if st.orelse:
            outs = self._body(st.orelse, outs)
        for h, hn in zip(st.handlers, entry_nodes):
            if self.g.in_degree(hn) == 0:
                continue  # handler unreachable under this specialisation
            outs += self._body(h.body, [(hn, "seq")])
        if has_finally:
            self._handlers.pop()
            outs = self._body(st.finalbody, outs)  # normal continuation (built first: it owns node_of)
            if self.g.in_degree(fin) > 0:
                for p, _k in self._body(st.finalbody, [(fin, "seq")]):
                    self._exc_target(p)  # the pending exception continues outward
            else:
                self.g.remove_node(fin)
                del self.stmt[fin], self.label[fin]
        return outs

    # -------------------------------------------------------------- queries
    def nodes_where(self, pred: Callable[[ast.AST], bool]) -> List[int]:
        return [n for n, s in self.stmt.items() if n in self.g and pred(s) and self.reachable(n)]

    def reachable(self, n: int) -> bool:
        if not hasattr(self, "_reach"):
            self._reach = nx.descendants(self.g, ENTRY) | {ENTRY}
        return n in self._reach

    def node_for(self, stmt: ast.AST) -> Optional[int]:
        return self.node_of.get(id(stmt))

    def stmt_node_containing(self, node: ast.AST) -> Optional[int]:
        """CFG node whose statement (header) contains the AST node."""
        cur = node
        while cur is not None:
            n = self.node_of.get(id(cur))
            if n is not None:
                return n
            if isinstance(cur, (ast.stmt, ast.ExceptHandler)):
                return None  # the statement was not built (dead under this specialisation)
            cur = getattr(cur, "_parent", None)
        return None

    def dominators(self):
        if self._dom is None:
            sub = self.g.subgraph(nx.descendants(self.g, ENTRY) | {ENTRY})
            self._dom = nx.immediate_dominators(sub, ENTRY)
        return self._dom

    def dominates(self, a: int, b: int) -> bool:
        """a dominates b (every path ENTRY->b passes a)."""
        idom = self.dominators()
        if b not in idom:
            return True  # unreachable
        cur = b
        while True:
            if cur == a:
                return True
            nxt = idom.get(cur)
            if nxt is None or nxt == cur:
                return cur == a
            cur = nxt

    def set_dominates(self, S: Set[int], b: int, start: int = ENTRY) -> bool:
        """Every path start->b passes through a node of S (b itself excluded unless in S)."""
        if b in S:
            return True
        if not self.reachable(b):
            return True
        h = self.g.copy()
        h.remove_nodes_from([s for s in S if s != start])
        if start in S:
            return True
        return not (b in h and start in h and nx.has_path(h, start, b))

    def all_paths_hit(self, start: int, S: Set[int], exits: Iterable[int] = (EXIT, RAISE)) -> Optional[List[int]]:
        """Return None if every path from start to any of `exits` passes a node in S; otherwise a witness path."""
        if start in S:
            return None
        h = self.g.copy()
        h.remove_nodes_from([s for s in S if s != start])
        for e in exits:
            if e in h and start in h and nx.has_path(h, start, e):
                return nx.shortest_path(h, start, e)
        return None

    def path_text(self, path: List[int]) -> List[str]:
        out = []
        for n in path:
            if n in (ENTRY, EXIT, RAISE):
                out.append(self.label[n])
            else:
                s = self.stmt[n]
                txt = norm(s).split("\n")[0] if not isinstance(s, ast.ExceptHandler) else "except " + (norm(s.type) if s.type else "")
                out.append(f"L{getattr(s, 'lineno', '?')}:{self.label[n]}:{txt[:70]}")
        return out

    def n_paths_upper(self) -> int:
        return self.g.number_of_edges() - self.g.number_of_nodes() + 2

    def edge_kinds(self, a, b):
        return self.g[a][b]["kinds"]

    def succ_by_kind(self, n: int, kind: str) -> List[int]:
        return [b for b in self.g.successors(n) if kind in self.g[n][b]["kinds"]]

    def reachable_from(self, n: int, avoiding: Set[int] = frozenset()) -> Set[int]:
        h = self.g
        if avoiding:
            h = self.g.copy()
            h.remove_nodes_from([a for a in avoiding if a != n])
        return nx.descendants(h, n)

    def edge_dominates(self, branch: int, kind: str, node: int) -> bool:
        """Every path ENTRY->node traverses an out-edge of `branch` labelled `kind`
        (so the statement at `node` is only executed after `branch` last evaluated to `kind`... for
        structured code: node lies in that arm of the branch)."""
        if not self.reachable(node):
            return True
        h = self.g.copy()
        found = False
        for b in list(self.g.successors(branch)):
            ks = self.g[branch][b]["kinds"]
            if kind in ks:
                if ks - {kind}:
                    return False
                h.remove_edge(branch, b)
                found = True
        if not found:
            return False
        return not nx.has_path(h, ENTRY, node)

    def conds_true_at(self, node: int) -> List[ast.AST]:
        """Atomic conditions known to hold whenever `node` executes: the conjuncts of every branch test whose true edge every path to `node`
        traverses (`if a and b:` contributes a and b), and the negated disjuncts of every test whose false edge does (`if a or b: ... else:`
        contributes not a, not b).  Negations are returned in the normal form (`x is not y`, `not c`)."""
        from .normal import _negate, _clone
        out: List[ast.AST] = []
        for t, st in self.stmt.items():
            if self.label.get(t) not in ("If", "While") or not isinstance(st, ast.expr):
                continue
            if self.edge_dominates(t, "true", node):
                vals = st.values if isinstance(st, ast.BoolOp) and isinstance(st.op, ast.And) else [st]
                out.extend(vals)
            elif self.edge_dominates(t, "false", node):
                vals = st.values if isinstance(st, ast.BoolOp) and isinstance(st.op, ast.Or) else [st]
                import copy as _copy
                out.extend(_negate(_clone(v)) for v in vals)
        return out

    def on_true_branch(self, branch: int, node: int) -> bool:
        """node reachable from branch only via its 'true' edge(s) (and not via 'false')."""
        t = set()
        for b in self.succ_by_kind(branch, "true"):
            t |= {b} | nx.descendants(self.g, b)
        f = set()
        for b in self.g.successors(branch):
            ks = self.g[branch][b]["kinds"]
            if ks - {"true"}:
                f |= {b} | nx.descendants(self.g, b)
        return node in t and node not in f


def stmt_defines(stmt: ast.AST, name: str) -> bool:
    """Does the CFG node's statement (header only for compound statements) bind or delete `name`?"""
    if isinstance(stmt, (ast.Assign,)):
        return any(name in _tnames(t) for t in stmt.targets)
    if isinstance(stmt, (ast.AugAssign, ast.AnnAssign)):
        return name in _tnames(stmt.target) and (not isinstance(stmt, ast.AnnAssign) or stmt.value is not None)
    if isinstance(stmt, (ast.For, ast.AsyncFor)):
        return name in _tnames(stmt.target)
    if isinstance(stmt, (ast.With, ast.AsyncWith)):
        return any(it.optional_vars is not None and name in _tnames(it.optional_vars) for it in stmt.items)
    if isinstance(stmt, ast.Delete):
        return any(name in _tnames(t) for t in stmt.targets)
    if isinstance(stmt, ast.ExceptHandler):
        return stmt.name == name
    if isinstance(stmt, (ast.FunctionDef, ast.AsyncFunctionDef, ast.ClassDef)):
        return stmt.name == name
    if isinstance(stmt, (ast.Import, ast.ImportFrom)):
        return any((a.asname or a.name).split(".")[0] == name for a in stmt.names)
    # walrus inside expressions
    for n in ast.walk(stmt) if isinstance(stmt, ast.AST) else []:
        if isinstance(n, ast.NamedExpr) and isinstance(n.target, ast.Name) and n.target.id == name:
            return True
    return False


def _tnames(t: ast.AST):
    if isinstance(t, ast.Name):
        return {t.id}
    if isinstance(t, (ast.Tuple, ast.List)):
        out = set()
        for e in t.elts:
            out |= _tnames(e)
        return out
    if isinstance(t, ast.Starred):
        return _tnames(t.value)
    return set()


def reaching_defs(cfg: "CFG", name: str, node: int):
    """Definitions of local `name` that may reach the *entry* of CFG node `node`:
    list of CFG nodes (ENTRY stands for 'parameter / undefined')."""
    seen = set()
    out = set()
    stack = list(cfg.g.predecessors(node))
    while stack:
        n = stack.pop()
        if n in seen:
            continue
        seen.add(n)
        if n == ENTRY:
            out.add(ENTRY)
            continue
        st = cfg.stmt.get(n)
        if st is not None and stmt_defines(st, name):
            out.add(n)
            continue
        stack.extend(cfg.g.predecessors(n))
    return sorted(out)


def _node_reads(stmt: ast.AST, name: str) -> bool:
    """does the CFG node's own part of the statement (header only for compound statements) read local `name`?"""
    if isinstance(stmt, (ast.For, ast.AsyncFor)):
        parts = [stmt.iter]
    elif isinstance(stmt, (ast.With, ast.AsyncWith)):
        parts = [it.context_expr for it in stmt.items]
    elif isinstance(stmt, (ast.FunctionDef, ast.AsyncFunctionDef, ast.ClassDef)):
        parts = [stmt]  # a nested scope may capture the name
    elif isinstance(stmt, ast.ExceptHandler):
        parts = [stmt.type] if stmt.type is not None else []
    else:
        parts = [stmt]
    for p in parts:
        for n in ast.walk(p):
            if isinstance(n, ast.Name) and n.id == name and isinstance(n.ctx, (ast.Load, ast.Del)):
                return True
            if isinstance(n, ast.AugAssign) and isinstance(n.target, ast.Name) and n.target.id == name:
                return True
    return False


def dead_after(cfg: "CFG", node: int, name: str) -> bool:
    """local `name` is not live on exit from CFG node `node`: on every path leaving it, `name` is re-bound (or the function ends) before it is read"""
    seen = set()
    stack = [b for b in cfg.g.successors(node)]
    while stack:
        n = stack.pop()
        if n in seen or n in (EXIT, RAISE):
            continue
        seen.add(n)
        st = cfg.stmt.get(n)
        if st is not None:
            if _node_reads(st, name):
                return False
            if stmt_defines(st, name):
                continue
        stack.extend(cfg.g.successors(n))
    return True
