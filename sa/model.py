"""Project model of rsokl/MyGrad built from source only (never imports mygrad).

* every ``*.py`` under ``<repo>/src/mygrad`` is parsed (an in-memory *overlay* ``{relpath: text}``
  can replace files -- used by the self-test bank, so no scratch copies are ever made);
* per module: symbol table of module-level bindings (def / class / assign / import);
* ``resolve``: dotted expression -> repo function | repo class | repo module | External("numpy.sin")
  | module-level value | None (unknown -- reported, never guessed);
* classes: bases resolved, C3-like MRO, ``lookup_method`` / ``lookup_attr``.
"""
from __future__ import annotations

import ast
import hashlib
import os
from dataclasses import dataclass, field
from typing import Dict, Iterator, List, Optional, Set, Tuple, Union

REPO = os.environ.get("SA_REPO", "/repo")
PKG = "mygrad"


class AnalysisError(Exception):
    """An anchor vanished / the analyser cannot interpret the tree: exit 2, never a pass."""


@dataclass
class External:
    name: str  # e.g. "numpy.sin", "weakref.finalize", "builtins.len"

    def __repr__(self):
        return f"External({self.name})"


@dataclass
class FunctionInfo:
    qualname: str  # mygrad.tensor_base.Tensor._op
    module: "Module"
    node: Union[ast.FunctionDef, ast.AsyncFunctionDef]
    cls: Optional["ClassInfo"] = None
    parent: Optional["FunctionInfo"] = None  # enclosing function for nested defs

    @property
    def name(self):
        return self.node.name

    @property
    def short(self):
        return self.qualname[len(PKG) + 1:] if self.qualname.startswith(PKG + ".") else self.qualname

    @property
    def file(self):
        return self.module.relpath

    def decorators(self) -> List[ast.expr]:
        return list(self.node.decorator_list)

    def has_decorator(self, name: str) -> bool:
        for d in self.node.decorator_list:
            t = d.func if isinstance(d, ast.Call) else d
            if dotted(t) is not None and dotted(t).split(".")[-1] == name:
                return True
        return False

    def params(self) -> List[str]:
        a = self.node.args
        names = [x.arg for x in a.posonlyargs + a.args]
        if a.vararg:
            names.append("*" + a.vararg.arg)
        names += [x.arg for x in a.kwonlyargs]
        if a.kwarg:
            names.append("**" + a.kwarg.arg)
        return names

    def __hash__(self):
        return hash(self.qualname)

    def __eq__(self, other):
        return isinstance(other, FunctionInfo) and other.qualname == self.qualname

    def __repr__(self):
        return f"<func {self.qualname}>"


@dataclass
class ClassInfo:
    qualname: str
    module: "Module"
    node: ast.ClassDef
    methods: Dict[str, FunctionInfo] = field(default_factory=dict)
    attrs: Dict[str, ast.expr] = field(default_factory=dict)  # class-level assignments
    bases: List[Union["ClassInfo", External, None]] = field(default_factory=list)
    _mro: Optional[List["ClassInfo"]] = None

    @property
    def name(self):
        return self.node.name

    @property
    def file(self):
        return self.module.relpath

    def mro(self) -> List["ClassInfo"]:
        if self._mro is None:
            self._mro = _c3(self)
        return self._mro

    def is_subclass_of(self, other: "ClassInfo") -> bool:
        return any(c.qualname == other.qualname for c in self.mro())

    def lookup_method(self, name: str) -> Optional[FunctionInfo]:
        for c in self.mro():
            if name in c.methods:
                return c.methods[name]
        return None

    def lookup_attr(self, name: str) -> Optional[Tuple["ClassInfo", ast.expr]]:
        for c in self.mro():
            if name in c.attrs:
                return c, c.attrs[name]
        return None

    def defines(self, name: str) -> bool:
        return name in self.methods or name in self.attrs

    def is_abstract(self) -> bool:
        """A class is abstract if any abstract method (through the MRO) is not overridden,
        or it lists ABC directly among its bases."""
        for b in self.node.bases:
            if dotted(b) in ("ABC", "abc.ABC"):
                return True
        seen = set()
        for c in self.mro():
            for mname, m in c.methods.items():
                if mname in seen:
                    continue
                seen.add(mname)
                if m.has_decorator("abstractmethod"):
                    return True
            for aname in c.attrs:
                seen.add(aname)
        return False

    def __hash__(self):
        return hash(self.qualname)

    def __eq__(self, other):
        return isinstance(other, ClassInfo) and other.qualname == self.qualname

    def __repr__(self):
        return f"<class {self.qualname}>"


def _c3(cls: ClassInfo) -> List[ClassInfo]:
    seqs = []
    for b in cls.bases:
        if isinstance(b, ClassInfo):
            seqs.append(list(b.mro()))
    seqs.append([b for b in cls.bases if isinstance(b, ClassInfo)])
    res = [cls]
    while True:
        seqs = [s for s in seqs if s]
        if not seqs:
            return res
        for s in seqs:
            cand = s[0]
            if not any(cand in t[1:] for t in seqs):
                break
        else:  # inconsistent hierarchy: fall back to DFS order
            cand = seqs[0][0]
        res.append(cand)
        for s in seqs:
            if s and s[0] == cand:
                del s[0]


@dataclass
class Binding:
    kind: str  # func | class | module | from | assign
    node: Optional[ast.AST] = None
    target: Optional[str] = None  # module name (module), or "module:name" (from)
    value: Optional[ast.expr] = None
    all_values: List[ast.expr] = field(default_factory=list)


class Module:
    def __init__(self, name: str, relpath: str, src: str):
        self.name = name
        self.relpath = relpath  # src/mygrad/...
        self.src = src
        self.tree = _parse_normalised(src)
        self.lines = src.split("\n")
        self.symbols: Dict[str, Binding] = {}
        self.star_imports: List[str] = []
        self.functions: Dict[str, FunctionInfo] = {}
        self.classes: Dict[str, ClassInfo] = {}
        self.all: Optional[List[str]] = None
        for n in ast.walk(self.tree):
            for ch in ast.iter_child_nodes(n):
                ch._parent = n  # type: ignore[attr-defined]

    def is_package(self):
        return self.relpath.endswith("__init__.py")

    def __repr__(self):
        return f"<module {self.name}>"


class _AnnToAssign(ast.NodeTransformer):
    """Inside function bodies, `x: T = v` is the same statement as `x = v` for every rule: normalise it once here.
    (Class-level and module-level annotations are kept: they carry declarations the model reads.)"""

    def __init__(self):
        self.depth = 0

    def visit_FunctionDef(self, node):
        self.depth += 1
        self.generic_visit(node)
        self.depth -= 1
        return node

    visit_AsyncFunctionDef = visit_FunctionDef

    def visit_AnnAssign(self, node):
        self.generic_visit(node)
        if self.depth == 0:
            return node
        if node.value is None:
            return ast.copy_location(ast.Pass(), node)
        return ast.copy_location(ast.Assign(targets=[node.target], value=node.value, type_comment=None), node)


_NORM_CACHE: Dict[str, bytes] = {}


def _parse_normalised(src: str) -> ast.AST:
    """parse + normal form, memoised per process on the source text (rules mutate the trees they get -- inlining, canonical names -- so every
    caller receives a private copy, rebuilt from the pickled normal form)"""
    import pickle
    key = hashlib.sha256(src.encode()).hexdigest() + os.environ.get("SA_NO_NORMAL", "")
    blob = _NORM_CACHE.get(key)
    if blob is None:
        raw = ast.parse(src)
        try:
            tree = _normalise(raw)
            compile(ast.fix_missing_locations(tree), "<normal form>", "exec")  # the normal form must still be a program
        except SyntaxError:
            raise
        except Exception:  # noqa -- a pass that chokes on an unforeseen construct must not take the analysis down: analyse the module as written
            tree = _AnnToAssign().visit(ast.parse(src))
            ast.fix_missing_locations(tree)
        try:
            _NORM_CACHE[key] = pickle.dumps(tree, protocol=pickle.HIGHEST_PROTOCOL)
        except Exception:  # noqa
            pass
        return tree
    return pickle.loads(blob)


def _normalise(tree: ast.AST) -> ast.AST:
    tree = _AnnToAssign().visit(tree)
    ast.fix_missing_locations(tree)
    if os.environ.get("SA_NO_NORMAL") != "1":
        from .normal import normalise
        tree = normalise(tree)
    return tree


def dotted(e: ast.AST) -> Optional[str]:
    """a.b.c -> 'a.b.c' for pure Name/Attribute chains."""
    parts = []
    while isinstance(e, ast.Attribute):
        parts.append(e.attr)
        e = e.value
    if isinstance(e, ast.Name):
        parts.append(e.id)
        return ".".join(reversed(parts))
    return None


def norm(node: ast.AST) -> str:
    """Normalised source text of a node (whitespace / line-break independent)."""
    try:
        return ast.unparse(node)
    except Exception:  # pragma: no cover
        return ast.dump(node)


EXTERNAL_ROOTS = {
    "numpy", "weakref", "functools", "collections", "typing", "abc", "numbers", "os", "warnings",
    "inspect", "pathlib", "numba", "itertools", "math", "copy", "scipy", "builtins", "sys",
}

BUILTINS = {
    "len", "tuple", "list", "dict", "set", "frozenset", "isinstance", "issubclass", "hasattr",
    "getattr", "setattr", "range", "enumerate", "zip", "any", "all", "sum", "min", "max", "id",
    "type", "int", "float", "bool", "str", "repr", "iter", "next", "reversed", "sorted", "slice",
    "map", "filter", "abs", "super", "print", "callable", "divmod", "round", "object", "staticmethod",
    "classmethod", "property", "ValueError", "TypeError", "IndexError", "KeyError", "Exception",
    "NotImplementedError", "AttributeError", "AssertionError", "NotImplemented", "Ellipsis",
    "RuntimeError", "StopIteration", "FutureWarning", "DeprecationWarning", "vars", "pow", "complex",
}


class Project:
    def __init__(self, repo: str = None, overlay: Optional[Dict[str, str]] = None):
        self.repo = repo or REPO
        self.overlay = overlay or {}
        self.modules: Dict[str, Module] = {}
        self.functions: Dict[str, FunctionInfo] = {}
        self.classes: Dict[str, ClassInfo] = {}
        self.unresolved: List[str] = []
        self._load()
        self.drift_log: List[str] = []
        if os.environ.get("SA_NO_DRIFT") != "1":
            from .drift import canonicalise_drift, load_table
            try:
                self.drift_log = canonicalise_drift({m.name: m.tree for m in self.modules.values()}, load_table())
            except Exception as e:  # noqa -- recognition is a convenience; without it the tree is analysed as it stands
                self.drift_log = [f"drift canonicalisation skipped ({type(e).__name__}: {e})"]
            if self.drift_log:
                from .normal import normalise as _renorm
                for m in self.modules.values():
                    if os.environ.get("SA_NO_NORMAL") != "1" and any(" D3 " in " " + l for l in self.drift_log):
                        m.tree = _renorm(m.tree)   # a specialised parameter leaves `if False:` / `x if True else y` behind
                    ast.fix_missing_locations(m.tree)
                    for n in ast.walk(m.tree):
                        for ch in ast.iter_child_nodes(n):
                            ch._parent = n  # type: ignore[attr-defined]
        self._index()
        self._link_classes()
        self.inline_log: List[str] = []
        self.absorbed: Set[str] = set()
        self.inlined_edges: Set[Tuple[str, str]] = set()
        if os.environ.get("SA_NO_INLINE") != "1":
            from .inline import inline_helpers
            self.inline_log = inline_helpers(self)
        from .canon import canonicalise
        try:
            canonicalise(self)
        except Exception as e:  # noqa -- role names are a convenience for the rules; without them the function is judged under its own names
            self.inline_log.append(f"role canonicalisation skipped ({type(e).__name__}: {e})")

    # ------------------------------------------------------------------ loading
    def _load(self):
        root = os.path.join(self.repo, "src", PKG)
        if not os.path.isdir(root):
            raise AnalysisError(f"source root {root} not found")
        h = hashlib.sha256()
        for dp, dn, fn in sorted(os.walk(root)):
            dn.sort()
            for f in sorted(fn):
                if not f.endswith(".py"):
                    continue
                full = os.path.join(dp, f)
                rel = os.path.relpath(full, self.repo)
                if rel in self.overlay:
                    src = self.overlay[rel]
                else:
                    with open(full, encoding="utf-8") as fh:
                        src = fh.read()
                h.update(rel.encode())
                h.update(src.encode())
                modname = rel[len("src/"):-3].replace(os.sep, ".")
                if modname.endswith(".__init__"):
                    modname = modname[: -len(".__init__")]
                try:
                    self.modules[modname] = Module(modname, rel, src)
                except SyntaxError as e:
                    raise AnalysisError(f"{rel}: does not parse: {e}")
        for rel in self.overlay:
            if not any(m.relpath == rel for m in self.modules.values()):
                modname = rel[len("src/"):-3].replace(os.sep, ".")
                self.modules[modname] = Module(modname, rel, self.overlay[rel])
        self.digest = h.hexdigest()

    def read(self, rel: str) -> str:
        if rel in self.overlay:
            return self.overlay[rel]
        with open(os.path.join(self.repo, rel), encoding="utf-8") as fh:
            return fh.read()

    # ------------------------------------------------------------------ indexing
    def _abs_module(self, mod: Module, level: int, name: Optional[str]) -> str:
        if level == 0:
            return name or ""
        parts = mod.name.split(".")
        if not mod.is_package():
            parts = parts[:-1]
        if level > 1:
            parts = parts[: len(parts) - (level - 1)]
        if name:
            parts += name.split(".")
        return ".".join(parts)

    def _index_body(self, mod: Module, body, guard_ok=True):
        for st in body:
            if isinstance(st, (ast.FunctionDef, ast.AsyncFunctionDef)):
                fi = FunctionInfo(f"{mod.name}.{st.name}", mod, st)
                # overloads: keep the last definition (the implementation)
                mod.functions[st.name] = fi
                mod.symbols[st.name] = Binding("func", st)
            elif isinstance(st, ast.ClassDef):
                ci = ClassInfo(f"{mod.name}.{st.name}", mod, st)
                mod.classes[st.name] = ci
                mod.symbols[st.name] = Binding("class", st)
                for b in st.body:
                    if isinstance(b, (ast.FunctionDef, ast.AsyncFunctionDef)):
                        prev = ci.methods.get(b.name)
                        m = FunctionInfo(f"{ci.qualname}.{b.name}", mod, b, cls=ci)
                        # property + setter share a name: keep getter under name, setter under name.setter
                        if prev is not None and any(
                            isinstance(d, ast.Attribute) and d.attr == "setter" for d in b.decorator_list
                        ):
                            m.qualname = f"{ci.qualname}.{b.name}.setter"
                            ci.methods[b.name + ".setter"] = m
                        else:
                            ci.methods[b.name] = m
                    elif isinstance(b, ast.Assign):
                        for t in b.targets:
                            if isinstance(t, ast.Name):
                                ci.attrs[t.id] = b.value
                    elif isinstance(b, ast.AnnAssign) and isinstance(b.target, ast.Name) and b.value is not None:
                        ci.attrs[b.target.id] = b.value
            elif isinstance(st, ast.Import):
                for a in st.names:
                    if a.asname:
                        mod.symbols[a.asname] = Binding("module", st, target=a.name)
                    else:
                        mod.symbols[a.name.split(".")[0]] = Binding("module", st, target=a.name.split(".")[0])
            elif isinstance(st, ast.ImportFrom):
                src = self._abs_module(mod, st.level, st.module)
                for a in st.names:
                    if a.name == "*":
                        mod.star_imports.append(src)
                    else:
                        mod.symbols[a.asname or a.name] = Binding("from", st, target=f"{src}:{a.name}")
            elif isinstance(st, ast.Assign):
                for t in st.targets:
                    for nm in _target_names(t):
                        b = mod.symbols.get(nm)
                        if b is not None and b.kind == "assign":
                            b.all_values.append(st.value)
                            b.value = st.value
                            b.node = st
                        else:
                            mod.symbols[nm] = Binding("assign", st, value=st.value, all_values=[st.value])
                    if isinstance(t, ast.Name) and t.id == "__all__" and isinstance(st.value, (ast.List, ast.Tuple)):
                        mod.all = [e.value for e in st.value.elts if isinstance(e, ast.Constant)]
            elif isinstance(st, ast.AnnAssign) and isinstance(st.target, ast.Name):
                if st.value is not None:
                    mod.symbols[st.target.id] = Binding("assign", st, value=st.value, all_values=[st.value])
            elif isinstance(st, ast.If):
                t = norm(st.test)
                if t in ("TYPE_CHECKING", "typing.TYPE_CHECKING") or t.startswith("TYPE_CHECKING and"):
                    # typing-only names: index the else-branch (runtime) first, then let
                    # type-only imports fill in names that are still missing
                    self._index_body(mod, st.orelse)
                    saved = dict(mod.symbols)
                    self._index_body(mod, st.body)
                    for k, v in saved.items():
                        mod.symbols[k] = v
                elif t in ("not TYPE_CHECKING",):
                    self._index_body(mod, st.body)
                else:
                    self._index_body(mod, st.body)
                    self._index_body(mod, st.orelse)
            elif isinstance(st, ast.Try):
                self._index_body(mod, st.body)
                for h in st.handlers:
                    self._index_body(mod, h.body)
                self._index_body(mod, st.orelse)
                self._index_body(mod, st.finalbody)

    def _index(self):
        for mod in self.modules.values():
            self._index_body(mod, mod.tree.body)
        for mod in self.modules.values():
            for f in mod.functions.values():
                self.functions[f.qualname] = f
                self._index_nested(f)
            for c in mod.classes.values():
                self.classes[c.qualname] = c
                for m in c.methods.values():
                    self.functions[m.qualname] = m
                    self._index_nested(m)

    def _index_nested(self, f: FunctionInfo):
        for st in ast.walk(f.node):
            if st is f.node:
                continue
            if isinstance(st, (ast.FunctionDef, ast.AsyncFunctionDef)):
                par = getattr(st, "_parent", None)
                # only direct nesting (walk finds all; qualify by nearest enclosing def)
                enc = par
                while enc is not None and not isinstance(enc, (ast.FunctionDef, ast.AsyncFunctionDef, ast.ClassDef)):
                    enc = getattr(enc, "_parent", None)
                if enc is f.node:
                    nf = FunctionInfo(f"{f.qualname}.<locals>.{st.name}", f.module, st, cls=None, parent=f)
                    self.functions[nf.qualname] = nf
                    self._index_nested(nf)

    def _link_classes(self):
        for c in self.classes.values():
            c.bases = []
            for b in c.node.bases:
                r = self.resolve(c.module, b)
                c.bases.append(r if isinstance(r, (ClassInfo, External)) else None)

    # ------------------------------------------------------------------ resolution
    def module_symbol(self, mod: Module, name: str, _seen=None):
        """Resolve a module-level name to FunctionInfo | ClassInfo | Module | External | ('value', Module, expr) | None."""
        _seen = _seen or set()
        key = (mod.name, name)
        if key in _seen:
            return None
        _seen.add(key)
        b = mod.symbols.get(name)
        if b is not None:
            if b.kind == "func":
                return mod.functions[name]
            if b.kind == "class":
                return mod.classes[name]
            if b.kind == "module":
                return self._module_or_external(b.target)
            if b.kind == "from":
                src, nm = b.target.split(":")
                if src in self.modules:
                    r = self.module_symbol(self.modules[src], nm, _seen)
                    if r is not None:
                        return r
                    sub = f"{src}.{nm}"
                    if sub in self.modules:
                        return self.modules[sub]
                    return None
                sub = f"{src}.{nm}"
                if sub in self.modules:
                    return self.modules[sub]
                return External(f"{src}.{nm}")
            if b.kind == "assign":
                return ("value", mod, b.value)
        for src in mod.star_imports:
            if src in self.modules:
                sm = self.modules[src]
                if sm.all is not None and name not in sm.all:
                    continue
                r = self.module_symbol(sm, name, _seen)
                if r is not None:
                    return r
        if mod.is_package():
            sub = f"{mod.name}.{name}"
            if sub in self.modules:
                return self.modules[sub]
        if name in BUILTINS:
            return External(f"builtins.{name}")
        return None

    def _module_or_external(self, name: str):
        if name in self.modules:
            return self.modules[name]
        if name.split(".")[0] == PKG:
            return None
        return External(name)

    def resolve(self, mod: Module, expr: ast.AST):
        """Resolve a Name/Attribute chain at module scope (no local-variable knowledge)."""
        d = dotted(expr)
        if d is None:
            return None
        parts = d.split(".")
        cur = self.module_symbol(mod, parts[0])
        for p in parts[1:]:
            if cur is None:
                return None
            if isinstance(cur, Module):
                nxt = self.module_symbol(cur, p)
                if nxt is None:
                    sub = f"{cur.name}.{p}"
                    nxt = self.modules.get(sub)
                cur = nxt
            elif isinstance(cur, External):
                cur = External(f"{cur.name}.{p}")
            elif isinstance(cur, ClassInfo):
                m = cur.lookup_method(p)
                if m is not None:
                    cur = m
                else:
                    a = cur.lookup_attr(p)
                    if a is None:
                        return None
                    cur = ("value", a[0].module, a[1])
            elif isinstance(cur, tuple) and cur[0] == "value":
                # follow simple aliases  X = np.sum ; X.attr
                inner = self.resolve(cur[1], cur[2])
                if inner is None:
                    return None
                cur = inner
                # re-apply this part
                if isinstance(cur, External):
                    cur = External(f"{cur.name}.{p}")
                elif isinstance(cur, Module):
                    cur = self.module_symbol(cur, p)
                elif isinstance(cur, ClassInfo):
                    m = cur.lookup_method(p)
                    cur = m if m is not None else None
                else:
                    return None
            else:
                return None
        # collapse simple aliasing of module-level values (X = np.sin)
        hops = 0
        while isinstance(cur, tuple) and cur[0] == "value" and hops < 5:
            v = cur[2]
            if isinstance(v, (ast.Name, ast.Attribute)):
                nxt = self.resolve(cur[1], v)
                if nxt is None:
                    break
                cur = nxt
                hops += 1
            elif isinstance(v, ast.Call) and dotted(v.func) in ("staticmethod", "classmethod") and v.args:
                nxt = self.resolve(cur[1], v.args[0])
                if nxt is None:
                    break
                cur = nxt
                hops += 1
            else:
                break
        return cur

    def ext_name(self, mod: Module, expr: ast.AST) -> Optional[str]:
        r = self.resolve(mod, expr)
        if isinstance(r, External):
            n = r.name
            if n.startswith("numpy.core.") or n.startswith("numpy._core."):
                n = "numpy." + n.split(".", 2)[2]
            return n
        return None

    # ------------------------------------------------------------------ convenience
    def func(self, qualname: str) -> FunctionInfo:
        f = self.functions.get(qualname)
        if f is None:
            raise AnalysisError(f"anchor function {qualname} not found")
        return f

    def cls(self, qualname: str) -> ClassInfo:
        c = self.classes.get(qualname)
        if c is None:
            raise AnalysisError(f"anchor class {qualname} not found")
        return c

    def module(self, name: str) -> Module:
        m = self.modules.get(name)
        if m is None:
            raise AnalysisError(f"anchor module {name} not found")
        return m

    def subclasses(self, base: ClassInfo, strict=True) -> List[ClassInfo]:
        out = []
        for c in self.classes.values():
            if c.is_subclass_of(base) and (not strict or c.qualname != base.qualname):
                out.append(c)
        return sorted(out, key=lambda c: c.qualname)

    def operation_classes(self) -> List[ClassInfo]:
        return self.subclasses(self.cls("mygrad.operation_base.Operation"))

    def concrete_ops(self) -> List[ClassInfo]:
        return [c for c in self.operation_classes() if not c.is_abstract()]

    def all_functions(self) -> Iterator[FunctionInfo]:
        ab = getattr(self, "absorbed", set())
        return iter(sorted((f for f in self.functions.values() if f.qualname not in ab), key=lambda f: f.qualname))

    def loc(self, f_or_mod, node: ast.AST) -> str:
        rel = f_or_mod.relpath if isinstance(f_or_mod, Module) else f_or_mod.module.relpath
        return f"{rel}:{getattr(node, 'lineno', 0)}"


def _target_names(t: ast.AST) -> List[str]:
    if isinstance(t, ast.Name):
        return [t.id]
    if isinstance(t, (ast.Tuple, ast.List)):
        out = []
        for e in t.elts:
            out += _target_names(e)
        return out
    if isinstance(t, ast.Starred):
        return _target_names(t.value)
    return []


def enclosing_function_node(node: ast.AST):
    n = getattr(node, "_parent", None)
    while n is not None and not isinstance(n, (ast.FunctionDef, ast.AsyncFunctionDef)):
        n = getattr(n, "_parent", None)
    return n


def own_nodes(fn_node: ast.AST) -> Iterator[ast.AST]:
    """Walk a function body without descending into nested defs / classes / lambdas."""
    stack = list(ast.iter_child_nodes(fn_node))
    while stack:
        n = stack.pop()
        yield n
        if isinstance(n, (ast.FunctionDef, ast.AsyncFunctionDef, ast.ClassDef)):
            continue
        stack.extend(ast.iter_child_nodes(n))
